#!/bin/sh
# Offline setup: nothing to build (quantarhei is pure Python, imported from /repo's
# working tree by every check); verify the interpreter and its packages.
cd "$(dirname "$0")" || exit 2
/venv/bin/python - <<'PY' || exit 2
import sys
sys.path.insert(0, "/repo")
import numpy, scipy, dill
try:
    import hypothesis
except Exception:
    import subprocess
    subprocess.check_call([sys.executable, "-m", "pip", "install", "--no-index",
                           "--find-links", "/opt/veriftools/wheels", "hypothesis"])
print("setup ok: python", sys.version.split()[0], "numpy", numpy.__version__, "scipy", scipy.__version__)
PY
chmod +x check selftest 2>/dev/null
exit 0
