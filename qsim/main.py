# -*- coding: utf-8 -*-
"""Driver of one check:  python -m qsim.main <ID> [--tier quick|thorough] ...

Exit codes: 0 property held on everything explored (known findings printed),
            1 VIOLATION (replay file written and verified),
            2 HARNESS-ERROR (never to be read as pass or as violation).
"""
import argparse
import glob
import hashlib
import importlib
import json
import os
import shutil
import subprocess
import sys
import tempfile
import time

VERIF_DIR = os.path.dirname(os.path.dirname(os.path.abspath(__file__)))

WORLDS = {
    "C04": "basisworld",
    "C05": "unitsworld",
    "C08": "esoworld",
    "C09": "bathalgebra",
    "C15": "reuseworld",
    "C17": "rateworld",
    "C18": "storeworld",
    "C19": "twodledger",
    "C20": "mpiworld",
}


def pinned_env(home):
    env = dict(os.environ)
    env.update({
        "QSIM_PINNED": "1",
        "HOME": home,
        "MPLBACKEND": "Agg",
        "OPENBLAS_NUM_THREADS": "1",
        "OMP_NUM_THREADS": "1",
        "MKL_NUM_THREADS": "1",
        "NUMEXPR_NUM_THREADS": "1",
        "PYTHONHASHSEED": os.environ.get("QSIM_HASHSEED", "0"),
        "PYTHONWARNINGS": "ignore",
        "PYTHONDONTWRITEBYTECODE": "1",
        "QUANTARHEI_VERIF": "1",
    })
    env.setdefault("VERIF_REPO", "/repo")
    return env


def reexec_pinned(argv):
    base = "/dev/shm" if os.path.isdir("/dev/shm") and os.access("/dev/shm", os.W_OK) else None
    home = tempfile.mkdtemp(prefix="qsim-home-", dir=base)
    try:
        env = pinned_env(home)
        env["QSIM_SCRATCH"] = home
        p = subprocess.run([sys.executable, "-B", "-m", "qsim.main"] + argv,
                           env=env, cwd=VERIF_DIR)
        return p.returncode
    finally:
        shutil.rmtree(home, ignore_errors=True)


def load_world(prop):
    repo = os.environ.get("VERIF_REPO", "/repo")
    if repo not in sys.path:
        sys.path.insert(0, repo)
    import quantarhei  # noqa: F401  (imported once, children are forked)
    qpath = os.path.realpath(os.path.dirname(quantarhei.__file__))
    if not qpath.startswith(os.path.realpath(repo)):
        raise SystemExit("HARNESS-ERROR: quantarhei imported from %s, not from %s" % (qpath, repo))
    mod = importlib.import_module("qsim.worlds." + WORLDS[prop])
    return mod.World()


def corpus_files(prop):
    return sorted(glob.glob(os.path.join(VERIF_DIR, "corpus", prop, "*.json")))


def main(argv=None):
    argv = list(sys.argv[1:] if argv is None else argv)
    if os.environ.get("QSIM_PINNED") != "1":
        return reexec_pinned(argv)

    ap = argparse.ArgumentParser()
    ap.add_argument("prop")
    ap.add_argument("--tier", default=os.environ.get("VERIF_TIER", "quick"))
    ap.add_argument("--replay")
    ap.add_argument("--runs", type=int)
    ap.add_argument("--budget", type=float)
    ap.add_argument("--workers", type=int, default=int(os.environ.get("VERIF_WORKERS", "16")))
    ap.add_argument("--digests", help="write {k: digest} of the batch to this file and stop")
    ap.add_argument("--no-evidence", action="store_true")
    ap.add_argument("--quiet", action="store_true")
    ap.add_argument("--one", type=int, help="run only run index k verbosely")
    ap.add_argument("--hypothesis", type=int, help="number of Hypothesis-generated examples (default: 0 quick, 300 thorough)")
    args = ap.parse_args(argv)
    prop = args.prop
    tier = args.tier if args.tier in ("quick", "thorough") else "quick"
    seed = int(os.environ.get("VERIF_SEED", "0") or 0)

    from qsim import core
    t0 = time.monotonic()
    try:
        world = load_world(prop)
    except SystemExit:
        raise
    except BaseException as e:
        import traceback
        traceback.print_exc()
        print("HARNESS-ERROR: cannot load world for %s: %r" % (prop, e))
        return 2

    # ---------------------------------------------------------------- replay
    if args.replay:
        body, res = core.replay(world, prop, args.replay, verbose=not args.quiet)
        print("replay %s: ok=%s oracle=%s digest=%s" % (args.replay, res["ok"], res["oracle"], res.get("digest")))
        if res["ok"] is False:
            print("  message: %s" % res["msg"])
            known = core.match_known(world, core.load_known(prop), body["program"], res["oracle"])
            if known is not None:
                print("KNOWN-FINDING: property=%s %s" % (prop, known["description"]))
                return 0
            print("VIOLATION property=%s replay=%s" % (prop, os.path.abspath(args.replay)))
            return 1
        if res["ok"] is None:
            print("HARNESS-ERROR: %s" % res["msg"])
            return 2
        return 0

    if args.one is not None:
        import random
        rng = random.Random(core.run_seed(prop, seed, args.one))
        program = world.gen(rng, tier)
        print(json.dumps(program))
        res = core.run_forked(world, program, verbose=True)
        print({k: v for k, v in res.items() if k != "cover"})
        return 0

    nruns = args.runs
    budget = args.budget
    if nruns is None and budget is None:
        if tier == "quick":
            nruns = int(os.environ.get("VERIF_RUNS", world.quick_runs))
        else:
            budget = float(os.environ.get("VERIF_BUDGET_S", getattr(world, "thorough_budget_s", 900)))

    if args.digests:
        merged = core.run_batch(world, prop, seed, tier, nruns=nruns, budget_s=budget,
                                workers=args.workers)
        with open(args.digests, "w") as f:
            json.dump({str(k): v for k, v in sorted(merged["digests"].items())}, f)
        return 0

    harness_errors = []
    violations = []      # (replay path, oracle, msg)
    known_printed = []
    known_entries = core.load_known(prop)

    # -------------------------------------------- regression corpus + known
    corpus_ran = 0
    for path in corpus_files(prop):
        with open(path) as f:
            body = json.load(f)
        res = core.run_forked(world, body["program"])
        corpus_ran += 1
        expect = body.get("expect", "pass")
        if res["ok"] is None:
            harness_errors.append("corpus %s: %s" % (os.path.basename(path), res["msg"]))
        elif res["ok"] is False:
            kf = core.match_known(world, known_entries, body["program"], res["oracle"])
            if kf is not None:
                if kf["id"] not in [k["id"] for k in known_printed]:
                    known_printed.append(kf)
            else:
                rp = core.write_replay(prop, world, seed, -1, body["program"], res["oracle"],
                                       res["msg"], res.get("digest"))
                violations.append((rp, res["oracle"], "corpus file %s (expected %s): %s"
                                   % (os.path.basename(path), expect, res["msg"])))

    # ------------------------------------------------- determinism spot check
    import random
    det_checked = 0
    det_ok = True
    ndet = 8 if tier == "quick" else 48
    for k in range(ndet):
        rng = random.Random(core.run_seed(prop, seed, k))
        program = world.gen(rng, tier)
        rng2 = random.Random(core.run_seed(prop, seed, k))
        program2 = world.gen(rng2, tier)
        if json.dumps(program, sort_keys=True) != json.dumps(program2, sort_keys=True):
            det_ok = False
            harness_errors.append("generator not deterministic at k=%d" % k)
            continue
        r1 = core.run_forked(world, program)
        r2 = core.run_forked(world, program)
        det_checked += 1
        if r1.get("digest") != r2.get("digest") or r1["ok"] != r2["ok"]:
            det_ok = False
            harness_errors.append("run not deterministic at k=%d: %s vs %s"
                                  % (k, r1.get("digest"), r2.get("digest")))

    # ---------------------------------------------------------------- search
    merged = core.run_batch(world, prop, seed, tier, nruns=nruns, budget_s=budget,
                            workers=args.workers)
    for h in merged["harness"]:
        harness_errors.append("run k=%s: %s" % (h.get("k"), h.get("msg")))
        if "program" in h:
            d = os.path.join(VERIF_DIR, "replays", prop)
            os.makedirs(d, exist_ok=True)
            with open(os.path.join(d, "harness-error-k%s.json" % h.get("k")), "w") as f:
                json.dump({"property": prop, "program": h["program"], "msg": h["msg"]}, f, indent=1)

    # ------------------------------------------------ Hypothesis leg (thorough)
    hyp = {"examples": 0, "failures": 0, "seconds": 0.0}
    nhyp = int(os.environ.get("QSIM_HYPOTHESIS", "0" if tier == "quick" else "300"))
    if args.hypothesis is not None:
        nhyp = args.hypothesis
    if nhyp > 0:
        hyp = core.hypothesis_leg(world, prop, seed, tier, nhyp, args.workers)
        for fl in hyp.pop("found"):
            merged["failures"].append(fl)
        merged["runs"] += hyp["examples"]

    # -------------------------------- failures: group, minimise, classify
    groups = {}
    for fl in merged["failures"]:
        key = (fl["oracle"], world.crude_signature(fl["program"], fl["oracle"]))
        groups.setdefault(key, []).append(fl)
    max_min = int(os.environ.get("QSIM_MAX_MINIMISE", "8"))
    n_min = 0
    for key in sorted(groups, key=lambda x: (groups[x][0]["k"], groups[x][0]["variant"])):
        fl = groups[key][0]
        program, trials = fl["program"], 0
        if n_min < max_min:
            program, trials = core.minimise(world, fl["program"], fl["oracle"])
            n_min += 1
        kf = core.match_known(world, known_entries, program, fl["oracle"])
        if kf is not None:
            if kf["id"] not in [k["id"] for k in known_printed]:
                known_printed.append(kf)
            continue
        # verify replay: fresh fork must fail the same way, twice, same digest
        r1 = core.run_forked(world, program)
        r2 = core.run_forked(world, program)
        if not (r1["ok"] is False and r1["oracle"] == fl["oracle"]
                and r2["ok"] is False and r1.get("digest") == r2.get("digest")):
            harness_errors.append("failure at k=%d (%s) did not replay deterministically"
                                  % (fl["k"], fl["oracle"]))
            program = fl["program"]
            r1 = core.run_forked(world, program)
        rp = core.write_replay(prop, world, seed, fl["k"], program, fl["oracle"],
                               r1.get("msg") or fl["msg"], r1.get("digest"), trials)
        violations.append((rp, fl["oracle"], r1.get("msg") or fl["msg"]))

    # --------------------------------------------------- reach (probes)
    missing = []
    if (nruns is None or nruns >= getattr(world, "probe_min_runs", 200)):
        for p in getattr(world, "required_probes", []):
            if merged["probes"].get(p, 0) == 0:
                missing.append(p)
        for p in getattr(world, "required_faults", []):
            if merged["faults"].get(p, 0) == 0:
                missing.append("fault:" + p)
    if missing:
        harness_errors.append("unreachable probe(s): %s" % ", ".join(missing))

    wall = time.monotonic() - t0

    # --------------------------------------------------------------- report
    for kf in known_printed:
        print("KNOWN-FINDING: property=%s %s" % (prop, kf["description"]))
    for rp, oracle, msg in violations:
        print("violation oracle=%s: %s" % (oracle, (msg or "")[:600]))
        print("VIOLATION property=%s replay=%s" % (prop, rp))
    for h in harness_errors[:10]:
        print("HARNESS-ERROR: %s" % str(h)[:1500])

    distinct_nontrivial = len(merged["nt_digests"])
    distinct_transitions = len(set(merged["cover"]))
    runs = merged["runs"]
    print("%s %s seed=%d: %d runs (%d fault-enumeration variants), %d non-trivial, "
          "%d distinct, %d distinct abstract transitions, %d steps, %.1fs (%.0f runs/h); "
          "violations=%d known=%d harness_errors=%d"
          % (prop, tier, seed, runs, merged["variants"], merged["nontrivial"],
             distinct_nontrivial, distinct_transitions, merged["steps"], wall,
             runs / max(wall, 1e-9) * 3600.0, len(violations), len(known_printed),
             len(harness_errors)))

    if not args.no_evidence:
        ev = {
            "property_id": prop,
            "tier": tier,
            "seed": seed,
            "level": world.level,
            "coverage": {
                "evaluations": runs + corpus_ran + 2 * det_checked,
                "distinct_nontrivial": distinct_nontrivial,
                "distinct_abstract_transitions": distinct_transitions,
                "rule": world.rule,
                "samples": merged["samples"][:3] or [world.gen(random.Random(0), tier)],
                "simulated_runs": runs,
                "nontrivial_runs": merged["nontrivial"],
                "fault_enumeration_variants": merged["variants"],
                "corpus_replays": corpus_ran,
                "logical_steps": merged["steps"],
                "runs_per_hour": round(runs / max(wall, 1e-9) * 3600.0),
                "simulated_time": "logical steps only (the library has no clock; see DESIGN 1.1)",
                "faults_fired": dict(sorted(merged["faults"].items())),
                "probes_hit": dict(sorted(merged["probes"].items())),
                "determinism": {"seeds_run_twice": det_checked, "all_digests_equal": det_ok},
                "hypothesis_leg": hyp,
                "components": world.components,
                "known_findings_printed": [k["id"] for k in known_printed],
                "failures_seen": len(merged["failures"]) + merged["failures_dropped"],
                "minimised_groups": n_min,
                "harness_errors": len(harness_errors),
                "workers": args.workers,
                "repo": os.environ.get("VERIF_REPO", "/repo"),
            },
            "assumptions": world.assumptions,
            "wall_s": round(wall, 2),
            "violations": len(violations),
        }
        os.makedirs(os.path.join(VERIF_DIR, "evidence"), exist_ok=True)
        with open(os.path.join(VERIF_DIR, "evidence", "%s.json" % prop), "w") as f:
            json.dump(ev, f, indent=1, sort_keys=True, default=str)

    if violations:
        return 1
    if harness_errors:
        return 2
    return 0


if __name__ == "__main__":
    sys.exit(main())
