# -*- coding: utf-8 -*-
"""qsim core: seeded runs in forked children, event-log digests, minimisation,
replay files, known-finding matching and evidence writing.

One integer (VERIF_SEED) decides everything: run k of property P uses
run_seed = sha256("P:seed:k")[:8]; the world derives its configuration, its
operation list and its fault plan from random.Random(run_seed) only.  Logging
never draws from a PRNG and never reads a clock.
"""
import hashlib
import json
import os
import random
import select
import signal
import sys
import time
import traceback
from collections import Counter

import numpy

VERIF_DIR = os.path.dirname(os.path.dirname(os.path.abspath(__file__)))


# --------------------------------------------------------------------------
#  outcome classes
# --------------------------------------------------------------------------
class Violation(Exception):
    """An oracle of the property failed (this is what a check reports)."""

    def __init__(self, oracle, msg=""):
        super().__init__("%s: %s" % (oracle, msg))
        self.oracle = oracle
        self.msg = msg


class SimFault(Exception):
    """The injected user-level exception (fault kind F1 of the worlds)."""


class HarnessError(Exception):
    """The harness itself is broken / cannot reach what it must reach."""


# --------------------------------------------------------------------------
#  seeds
# --------------------------------------------------------------------------
def run_seed(prop, seed, k):
    h = hashlib.sha256(("%s:%d:%d" % (prop, seed, k)).encode()).hexdigest()
    return int(h[:16], 16)


# --------------------------------------------------------------------------
#  fingerprints (deterministic, no clock, no PRNG)
# --------------------------------------------------------------------------
def fingerprint(*arrays):
    """SHA-1 over arrays rounded to ~10 significant digits of their scale."""
    h = hashlib.sha1()
    for a in arrays:
        if a is None:
            h.update(b"None")
            continue
        a = numpy.asarray(a)
        if a.dtype.kind in "OUS":
            h.update(repr(a.tolist()).encode())
            continue
        a = a.astype(numpy.complex128, copy=False)
        h.update(repr(a.shape).encode())
        if a.size == 0:
            continue
        fin = numpy.isfinite(a)
        if not fin.all():
            h.update(b"nonfinite")
            a = numpy.where(fin, a, 0.0)
        scale = float(numpy.max(numpy.abs(a)))
        if scale == 0.0:
            h.update(b"zero")
            continue
        # scale rounded to a power of two so that the grid is stable
        e = numpy.ceil(numpy.log2(scale))
        q = numpy.round(a / (2.0 ** e) * 1e10)
        q = q + (0.0 + 0.0j)  # normalise -0.0
        h.update(repr(float(e)).encode())
        h.update(numpy.ascontiguousarray(q.real).astype(numpy.int64).tobytes())
        h.update(numpy.ascontiguousarray(q.imag).astype(numpy.int64).tobytes())
    return h.hexdigest()[:12]


# --------------------------------------------------------------------------
#  run context: event log, coverage, probes, fault counters
# --------------------------------------------------------------------------
class Ctx:
    def __init__(self, verbose=False):
        self.events = []
        self.cover = set()
        self.probes = Counter()
        self.faults = Counter()
        self.steps = 0
        self.nontrivial = False
        self.verbose = verbose
        self.notes = []

    def ev(self, *items):
        s = json.dumps(items, sort_keys=True, default=str)
        self.events.append(s)
        if self.verbose:
            sys.__stderr__.write("  ev " + s + "\n")

    def step(self, n=1):
        self.steps += n

    def cov(self, *key):
        self.cover.add(hashlib.sha1(repr(key).encode()).hexdigest()[:10])

    def probe(self, name, n=1):
        self.probes[name] += n

    def fault(self, kind, n=1):
        self.faults[kind] += n

    def digest(self):
        h = hashlib.sha1()
        for e in self.events:
            h.update(e.encode())
            h.update(b"\n")
        return h.hexdigest()[:16]


def check(cond, oracle, msg=""):
    if not cond:
        raise Violation(oracle, msg() if callable(msg) else msg)


def close(a, b, rtol=1e-10, atol=None, scale=None):
    """max|a-b| <= atol + rtol*scale, NaN-safe (NaN => not close)."""
    a = numpy.asarray(a)
    b = numpy.asarray(b)
    if a.shape != b.shape:
        return False
    if a.size == 0:
        return True
    if not (numpy.all(numpy.isfinite(a)) and numpy.all(numpy.isfinite(b))):
        return bool(numpy.array_equal(a, b))
    if scale is None:
        scale = max(float(numpy.max(numpy.abs(a))), float(numpy.max(numpy.abs(b))), 1e-300)
    if atol is None:
        atol = 0.0
    return bool(numpy.max(numpy.abs(a - b)) <= atol + rtol * scale)


def maxdiff(a, b):
    a = numpy.asarray(a)
    b = numpy.asarray(b)
    if a.shape != b.shape:
        return "shape %r vs %r" % (a.shape, b.shape)
    if a.size == 0:
        return "0"
    return "%.3e (scale %.3e)" % (float(numpy.max(numpy.abs(a - b))),
                                   float(max(numpy.max(numpy.abs(a)), numpy.max(numpy.abs(b)))))


# --------------------------------------------------------------------------
#  executing one program in a forked child
# --------------------------------------------------------------------------
def _child_run(world, program, wfd, verbose=False):
    """Runs in the forked child; never returns."""
    try:
        try:
            import faulthandler
            faulthandler.enable(all_threads=True)
        except Exception:
            pass
        try:
            # a run-away library loop must end in MemoryError, not in taking the machine down
            import resource
            lim = int(os.environ.get("QSIM_CHILD_AS_GB", "4")) * (1 << 30)
            resource.setrlimit(resource.RLIMIT_AS, (lim, lim))
        except Exception:
            pass
        if not verbose:
            dn = os.open(os.devnull, os.O_WRONLY)
            os.dup2(dn, 1)
            os.dup2(dn, 2)
        ctx = Ctx(verbose=verbose)
        res = {"ok": True, "oracle": None, "msg": None}
        try:
            world.run(program, ctx)
        except Violation as v:
            res = {"ok": False, "oracle": v.oracle, "msg": str(v.msg)[:2000]}
            ctx.ev("VIOLATION", v.oracle)
        except HarnessError as e:
            res = {"ok": None, "oracle": "harness", "msg": str(e)[:2000]}
        except BaseException:
            res = {"ok": None, "oracle": "harness",
                   "msg": traceback.format_exc()[-3000:]}
        res.update({
            "digest": ctx.digest(),
            "cover": sorted(ctx.cover),
            "probes": dict(ctx.probes),
            "faults": dict(ctx.faults),
            "steps": ctx.steps,
            "nontrivial": bool(ctx.nontrivial),
            "notes": ctx.notes[:20],
        })
        data = json.dumps(res).encode()
    except BaseException:
        data = json.dumps({"ok": None, "oracle": "harness",
                           "msg": traceback.format_exc()[-3000:]}).encode()
    try:
        off = 0
        while off < len(data):
            off += os.write(wfd, data[off:off + 65536])
        os.close(wfd)
    finally:
        os._exit(0)


def run_forked(world, program, timeout=None, verbose=False):
    """Fork, run program in the child, return the result dict."""
    if timeout is None:
        timeout = getattr(world, "run_timeout", 60.0)
    rfd, wfd = os.pipe()
    sys.stdout.flush()
    sys.stderr.flush()
    pid = os.fork()
    if pid == 0:
        os.close(rfd)
        try:
            signal.signal(signal.SIGINT, signal.SIG_DFL)
        except Exception:
            pass
        _child_run(world, program, wfd, verbose=verbose)
        os._exit(0)
    os.close(wfd)
    chunks = []
    deadline = time.monotonic() + timeout
    timed_out = False
    while True:
        left = deadline - time.monotonic()
        if left <= 0:
            timed_out = True
            break
        r, _, _ = select.select([rfd], [], [], min(left, 1.0))
        if r:
            b = os.read(rfd, 1 << 20)
            if not b:
                break
            chunks.append(b)
    os.close(rfd)
    if timed_out:
        try:
            os.kill(pid, signal.SIGKILL)
        except Exception:
            pass
    try:
        os.waitpid(pid, 0)
    except Exception:
        pass
    if timed_out:
        return {"ok": None, "oracle": "harness", "msg": "timeout after %ss" % timeout,
                "digest": "timeout", "cover": [], "probes": {}, "faults": {},
                "steps": 0, "nontrivial": False}
    data = b"".join(chunks)
    if not data:
        return {"ok": None, "oracle": "harness", "msg": "child died without result",
                "digest": "dead", "cover": [], "probes": {}, "faults": {},
                "steps": 0, "nontrivial": False}
    return json.loads(data.decode())


# --------------------------------------------------------------------------
#  batch: W workers, each forking one grandchild per run
# --------------------------------------------------------------------------
def _worker(world, prop, seed, tier, w, W, nruns, deadline, wfd, max_fail):
    agg = {"runs": 0, "nontrivial": 0, "cover": set(), "probes": Counter(),
           "faults": Counter(), "steps": 0, "failures": [], "harness": [],
           "samples": [], "digests": {}, "variants": 0, "nt_digests": set()}
    k = w
    while True:
        if nruns is not None and k >= nruns:
            break
        if deadline is not None and time.monotonic() >= deadline:
            break
        rng = random.Random(run_seed(prop, seed, k))
        base = world.gen(rng, tier)
        programs = [base]
        if hasattr(world, "fault_variants") and (tier == "thorough" or k < getattr(world, "quick_enum_bases", 0)):
            # single-fault enumeration: the same program with one fault placed at every position
            programs = programs + list(world.fault_variants(base, rng))
        for vi, program in enumerate(programs):
            res = run_forked(world, program)
            agg["runs"] += 1
            if vi > 0:
                agg["variants"] += 1
            if res.get("nontrivial"):
                agg["nontrivial"] += 1
                agg["nt_digests"].add(str(res.get("digest"))[:10])
            agg["cover"].update(res.get("cover", []))
            agg["probes"].update(res.get("probes", {}))
            agg["faults"].update(res.get("faults", {}))
            agg["steps"] += res.get("steps", 0)
            if vi == 0:
                agg["digests"][k] = res.get("digest")
            if res["ok"] is False:
                if len(agg["failures"]) < max_fail:
                    agg["failures"].append({"k": k, "variant": vi, "program": program,
                                            "oracle": res["oracle"], "msg": res["msg"]})
                else:
                    agg.setdefault("failures_dropped", 0)
                    agg["failures_dropped"] += 1
            elif res["ok"] is None:
                if len(agg["harness"]) < 5:
                    agg["harness"].append({"k": k, "variant": vi, "program": program,
                                           "msg": res["msg"]})
                if str(res.get("msg", "")).startswith("timeout"):
                    agg["timeouts"] = agg.get("timeouts", 0) + 1
            if len(agg["samples"]) < 2 and vi == 0 and res.get("nontrivial"):
                agg["samples"].append(program)
        if agg.get("timeouts", 0) >= 3:
            # something hangs systematically: stop burning the budget, the batch is reported as HARNESS-ERROR anyway
            agg["harness"].append({"k": k, "variant": 0, "msg": "worker gave up after 3 timeouts"})
            break
        k += W
    agg["cover"] = sorted(agg["cover"])
    agg["nt_digests"] = sorted(agg["nt_digests"])
    agg["probes"] = dict(agg["probes"])
    agg["faults"] = dict(agg["faults"])
    data = json.dumps(agg).encode()
    off = 0
    while off < len(data):
        off += os.write(wfd, data[off:off + 65536])
    os.close(wfd)
    os._exit(0)


def run_batch(world, prop, seed, tier, nruns=None, budget_s=None, workers=16, max_fail=40):
    """Run a batch; returns merged aggregate."""
    deadline = None if budget_s is None else time.monotonic() + budget_s
    pipes = []
    sys.stdout.flush()
    sys.stderr.flush()
    for w in range(workers):
        rfd, wfd = os.pipe()
        pid = os.fork()
        if pid == 0:
            os.close(rfd)
            for (r0, _p) in pipes:
                os.close(r0)
            try:
                _worker(world, prop, seed, tier, w, workers, nruns, deadline, wfd, max_fail)
            except BaseException:
                try:
                    os.write(wfd, json.dumps({"worker_crash": traceback.format_exc()[-3000:]}).encode())
                except Exception:
                    pass
            os._exit(0)
        os.close(wfd)
        pipes.append((rfd, pid))
    merged = {"runs": 0, "nontrivial": 0, "cover": set(), "probes": Counter(),
              "faults": Counter(), "steps": 0, "failures": [], "harness": [],
              "samples": [], "digests": {}, "variants": 0, "failures_dropped": 0,
              "nt_digests": set()}
    bufs = {rfd: [] for rfd, _ in pipes}
    open_fds = set(bufs)
    while open_fds:
        r, _, _ = select.select(list(open_fds), [], [], 5.0)
        for fd in r:
            b = os.read(fd, 1 << 20)
            if b:
                bufs[fd].append(b)
            else:
                open_fds.discard(fd)
    for rfd, pid in pipes:
        os.close(rfd)
        try:
            os.waitpid(pid, 0)
        except Exception:
            pass
        data = b"".join(bufs[rfd])
        if not data:
            merged["harness"].append({"k": -1, "msg": "worker died without result"})
            continue
        agg = json.loads(data.decode())
        if "worker_crash" in agg:
            merged["harness"].append({"k": -1, "msg": agg["worker_crash"]})
            continue
        merged["runs"] += agg["runs"]
        merged["variants"] += agg["variants"]
        merged["nontrivial"] += agg["nontrivial"]
        merged["cover"].update(agg["cover"])
        merged["nt_digests"].update(agg["nt_digests"])
        merged["probes"].update(agg["probes"])
        merged["faults"].update(agg["faults"])
        merged["steps"] += agg["steps"]
        merged["failures"].extend(agg["failures"])
        merged["harness"].extend(agg["harness"])
        merged["samples"].extend(agg["samples"])
        merged["failures_dropped"] += agg.get("failures_dropped", 0)
        merged["digests"].update({int(k): v for k, v in agg["digests"].items()})
    merged["failures"].sort(key=lambda f: (f["k"], f["variant"]))
    return merged


# --------------------------------------------------------------------------
#  minimisation (ddmin over ops, then world-specific simplifications)
# --------------------------------------------------------------------------
def _fails_same(world, program, oracle, budget):
    if budget[0] <= 0:
        return False
    budget[0] -= 1
    res = run_forked(world, program)
    if res["ok"] is None and str(res.get("msg", "")).startswith("timeout"):
        # hanging candidates would turn minimisation into hours: two of them end it
        budget.append("timeout")
        if budget.count("timeout") >= 2:
            budget[0] = 0
    return res["ok"] is False and res["oracle"] == oracle


def minimise(world, program, oracle, max_trials=400):
    """Shrink program while the same oracle id keeps failing."""
    budget = [max_trials]
    get_ops = getattr(world, "get_ops", lambda p: p["ops"])
    set_ops = getattr(world, "set_ops", lambda p, ops: dict(p, ops=ops))

    ops = list(get_ops(program))
    # ddmin
    n = 2
    while len(ops) >= 1 and budget[0] > 0:
        chunk = max(1, len(ops) // n)
        reduced = False
        i = 0
        while i < len(ops) and budget[0] > 0:
            cand = ops[:i] + ops[i + chunk:]
            if _fails_same(world, set_ops(program, cand), oracle, budget):
                ops = cand
                reduced = True
                n = max(n - 1, 2)
            else:
                i += chunk
        if not reduced:
            if chunk == 1:
                break
            n = min(len(ops), n * 2)
    program = set_ops(program, ops)
    # world-specific simplifications (each candidate is a full program)
    if hasattr(world, "simplify"):
        progress = True
        while progress and budget[0] > 0:
            progress = False
            for cand in world.simplify(program):
                if budget[0] <= 0:
                    break
                if _fails_same(world, cand, oracle, budget):
                    program = cand
                    progress = True
                    break
    return program, max_trials - budget[0]


# --------------------------------------------------------------------------
#  known findings
# --------------------------------------------------------------------------
def load_known(prop):
    path = os.path.join(VERIF_DIR, "known_findings.json")
    if not os.path.exists(path):
        return []
    with open(path) as f:
        allf = json.load(f)
    return [e for e in allf.get("findings", []) if e.get("property") == prop]


def match_known(world, entries, program, oracle):
    for e in entries:
        if e.get("status") != "known":
            continue
        if e.get("oracle") and e["oracle"] != oracle:
            continue
        if world.matches_finding(e, program, oracle):
            return e
    return None


# --------------------------------------------------------------------------
#  replay files
# --------------------------------------------------------------------------
def write_replay(prop, world, seed, k, program, oracle, msg, digest, trials=None):
    d = os.path.join(VERIF_DIR, "replays", prop)
    os.makedirs(d, exist_ok=True)
    body = {"property": prop, "world": world.name, "seed": seed, "k": k,
            "oracle": oracle, "msg": msg, "digest": digest,
            "minimisation_trials": trials, "program": program}
    name = hashlib.sha1(json.dumps(program, sort_keys=True).encode()).hexdigest()[:12]
    path = os.path.join(d, "%s.json" % name)
    with open(path, "w") as f:
        json.dump(body, f, indent=1, sort_keys=True)
    return path


def replay(world, prop, path, verbose=True):
    with open(path) as f:
        body = json.load(f)
    res = run_forked(world, body["program"], verbose=verbose)
    return body, res


# --------------------------------------------------------------------------
#  second generator: Hypothesis drives the same world.gen through st.randoms()
# --------------------------------------------------------------------------
def _hyp_worker(world, prop, seed, tier, w, n, wfd):
    out = {"examples": 0, "found": []}
    try:
        import hypothesis
        from hypothesis import given, settings, strategies as st, HealthCheck
        state = {"last_fail": None}

        @hypothesis.seed(run_seed(prop, seed, 10 ** 6 + w) % (2 ** 32))
        @settings(max_examples=n, database=None, deadline=None, derandomize=False, report_multiple_bugs=False,
                  suppress_health_check=list(HealthCheck), print_blob=False)
        @given(st.randoms(use_true_random=False))
        def test(rnd):
            program = world.gen(rnd, tier)
            if state["last_fail"] is not None:
                # shrinking phase: bounded, the driver's own ddmin continues from the smallest real failure
                # (the program is still drawn so that data generation stays consistent for Hypothesis)
                state["shrink_left"] = state.get("shrink_left", 120) - 1
                if state["shrink_left"] < 0:
                    raise AssertionError(state["last_fail"]["oracle"])
            res = run_forked(world, program)
            out["examples"] += 1
            if res["ok"] is False:
                prev = state["last_fail"]
                size = len(json.dumps(program))
                if prev is None or (res["oracle"] == prev["oracle"] and size <= prev["size"]):
                    state["last_fail"] = {"k": -2 - w, "variant": 0, "program": program, "oracle": res["oracle"], "msg": res["msg"],
                                          "size": size}
                raise AssertionError(res["oracle"])
        try:
            test()
        except AssertionError:
            # the last failing example hypothesis executed is its shrunk one
            if state["last_fail"] is not None:
                out["found"].append(state["last_fail"])
        except BaseException as e:   # hypothesis internal errors are harness noise, never violations
            out["error"] = "%s: %s" % (type(e).__name__, str(e)[:300])
            if state["last_fail"] is not None:
                out["found"].append(state["last_fail"])
    except BaseException as e:
        out["error"] = "%s: %s" % (type(e).__name__, str(e)[:300])
    data = json.dumps(out).encode()
    off = 0
    while off < len(data):
        off += os.write(wfd, data[off:off + 65536])
    os.close(wfd)
    os._exit(0)


def hypothesis_leg(world, prop, seed, tier, nexamples, workers):
    t0 = time.monotonic()
    W = max(1, min(workers, nexamples // 10 or 1))
    per = max(1, nexamples // W)
    pipes = []
    sys.stdout.flush()
    for w in range(W):
        rfd, wfd = os.pipe()
        pid = os.fork()
        if pid == 0:
            os.close(rfd)
            _hyp_worker(world, prop, seed, tier, w, per, wfd)
            os._exit(0)
        os.close(wfd)
        pipes.append((rfd, pid))
    res = {"examples": 0, "failures": 0, "found": [], "errors": []}
    for rfd, pid in pipes:
        chunks = []
        while True:
            b = os.read(rfd, 1 << 20)
            if not b:
                break
            chunks.append(b)
        os.close(rfd)
        os.waitpid(pid, 0)
        if chunks:
            o = json.loads(b"".join(chunks).decode())
            res["examples"] += o.get("examples", 0)
            res["found"].extend(o.get("found", []))
            if o.get("error"):
                res["errors"].append(o["error"])
    res["failures"] = len(res["found"])
    res["seconds"] = round(time.monotonic() - t0, 1)
    res["errors"] = res["errors"][:3]
    return res
