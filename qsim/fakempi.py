# -*- coding: utf-8 -*-
"""N simulated MPI ranks in one process.

Every rank is a real Python thread that runs real quantarhei code; exactly one
thread holds the baton at any time and the seeded scheduler decides who gets
it next at every communicator call (and, with a seeded probability, whenever
the library fetches its DistributedConfiguration).  `mpi4py` is a stub module
placed in sys.modules whose MPI.COMM_WORLD resolves to the communicator of
the rank that holds the baton.

Transport is reliable (MPI): no loss, no duplication.  Varied: interleaving,
slow / stalled ranks (weights), start skew, early completion of rooted
collectives on ranks that need not wait, eager vs. rendezvous sends, order
in which messages of different pairs are matched.
"""
import sys
import threading
import types
from collections import deque

import numpy

from .core import Violation, HarnessError


class Deadlock(Exception):
    pass


class _Abort(BaseException):
    """Raised inside rank threads to unwind them when the run is over."""


class FakeComm:
    def __init__(self, sim, rank):
        self.sim = sim
        self.rank = rank

    # -- queries (not scheduling points) -------------------------------
    def Get_rank(self):
        return self.rank

    def Get_size(self):
        return self.sim.n

    # -- collectives -----------------------------------------------------
    def Barrier(self):
        self.sim.collective(self.rank, "Barrier", None, None)

    def Allreduce(self, A, B, op=None):
        parts = self.sim.collective(self.rank, "Allreduce", None, _membuf(A).copy())
        _membuf(B, writable=True)[:] = _sum(parts)

    def Reduce(self, A, B, op=None, root=0):
        parts = self.sim.collective(self.rank, "Reduce", root, _membuf(A).copy(),
                                    may_leave_early=(self.rank != root))
        if self.rank == root:
            _membuf(B, writable=True)[:] = _sum(parts)

    def bcast(self, value, root=0):
        parts = self.sim.collective(self.rank, "bcast", root, value,
                                    may_leave_early=(self.rank == root))
        if self.rank == root:
            return value
        return parts[root]

    # -- point to point ---------------------------------------------------
    def Send(self, data, dest=0, tag=0):
        self.sim.send(self.rank, dest, tag, numpy.array(data, copy=True))

    def Recv(self, buf, source=0, tag=None):
        data = self.sim.recv(self.rank, source, tag)
        buf[...] = data


def _membuf(A, writable=False):
    """The buffer mpi4py sees: the array's memory as one flat run of elements.  Like mpi4py (which asks for
    PyBUF_ANY_CONTIGUOUS) this accepts C- and Fortran-contiguous arrays, takes the elements in MEMORY order, and refuses
    anything else."""
    A = A if isinstance(A, numpy.ndarray) else numpy.asarray(A)
    if A.flags.c_contiguous:
        return A.reshape(-1)
    if A.flags.f_contiguous:
        return A.T.reshape(-1)
    raise ValueError("ndarray is not contiguous")


def _sum(parts):
    tot = None
    for r in sorted(parts):
        tot = parts[r].copy() if tot is None else tot + parts[r]
    return tot


class Sim:
    def __init__(self, n, rng, ctx, p_yield=0.3, step_budget=20000, weights=None):
        self.n = n
        self.rng = rng
        self.ctx = ctx
        self.p_yield = p_yield
        self.step_budget = step_budget
        self.weights = weights or [1.0] * n
        self.status = ["new"] * n
        self.cond = [None] * n
        self.why = [""] * n
        self.go = [threading.Semaphore(0) for _ in range(n)]
        self.back = threading.Semaphore(0)
        self.current = None
        self.coll = {}
        self.coll_count = [0] * n
        self.mail = {}
        self.pending_sync = {}
        self.schedule = []
        self.errors = {}
        self.results = {}
        self.error = None
        self.abort = False
        self.comms = [FakeComm(self, r) for r in range(n)]
        self.configs = [None] * n
        self.threads = []
        self.early = 0

    # ------------------------------------------------------------ baton
    def _park(self, r, status, cond=None, why=""):
        """Called by the rank thread holding the baton: give it back."""
        self.status[r] = status
        self.cond[r] = cond
        self.why[r] = why
        self.back.release()
        self.go[r].acquire()
        if self.abort:
            raise _Abort()
        self.status[r] = "running"

    def yield_point(self, r, why=""):
        self._park(r, "ready", None, why)

    def maybe_yield(self, why=""):
        t = threading.current_thread()
        r = getattr(t, "qsim_rank", None)
        if r is None:
            return
        if self.p_yield > 0 and self.rng.random() < self.p_yield:
            self.yield_point(r, why)

    # ------------------------------------------------------ collectives
    def collective(self, r, kind, root, payload, may_leave_early=False):
        idx = self.coll_count[r]
        self.coll_count[r] += 1
        e = self.coll.setdefault(idx, {"kind": kind, "root": root, "arr": {}})
        if e["kind"] != kind or e["root"] != root:
            self.error = Violation("collective-mismatch",
                                   "collective #%d: rank %d calls %s(root=%r) while others call %s(root=%r)"
                                   % (idx, r, kind, root, e["kind"], e["root"]))
            self._park(r, "blocked", lambda: False, "mismatched collective")
        e["arr"][r] = payload
        self.ctx.step()
        if may_leave_early and self.rng.random() < 0.5:
            self.early += 1
            self.ctx.probe("collective_left_early")
            self.yield_point(r, "%s#%d early" % (kind, idx))
            return e["arr"]
        if len(e["arr"]) < self.n:
            self._park(r, "blocked", lambda: len(e["arr"]) == self.n, "%s#%d" % (kind, idx))
        else:
            self.yield_point(r, "%s#%d last" % (kind, idx))
        return e["arr"]

    # --------------------------------------------------- point to point
    def send(self, r, dest, tag, data):
        q = self.mail.setdefault((r, dest), deque())
        token = [False]
        q.append((tag, data, token))
        self.ctx.step()
        if self.rng.random() < 0.5:
            self.ctx.probe("rendezvous_send")
            self._park(r, "blocked", lambda: token[0], "Send->%d tag %r" % (dest, tag))
        else:
            self.yield_point(r, "Send->%d eager" % dest)

    def _find(self, src, dst, tag):
        q = self.mail.get((src, dst))
        if not q:
            return None
        for i, (t, d, tok) in enumerate(q):
            if tag is None or t == tag:
                return i
        return None

    def recv(self, r, source, tag):
        self.ctx.step()
        if self._find(source, r, tag) is None:
            self._park(r, "blocked", lambda: self._find(source, r, tag) is not None,
                       "Recv<-%d tag %r" % (source, tag))
        else:
            self.yield_point(r, "Recv<-%d ready" % source)
        i = self._find(source, r, tag)
        q = self.mail[(source, r)]
        t, d, tok = q[i]
        del q[i]
        tok[0] = True
        return d

    # ----------------------------------------------------------- driver
    def run(self, program):
        """program(rank) -> result; runs all ranks to quiescence."""
        def body(r):
            self.go[r].acquire()
            if self.abort:
                return
            self.status[r] = "running"
            try:
                self.results[r] = program(r)
            except _Abort:
                return
            except BaseException as e:  # noqa
                import traceback
                self.errors[r] = (e, traceback.format_exc()[-1500:])
            self.status[r] = "done"
            self.back.release()

        for r in range(self.n):
            t = threading.Thread(target=body, args=(r,), daemon=True)
            t.qsim_rank = r
            self.threads.append(t)
            self.status[r] = "ready"
            t.start()
        steps = 0
        outcome = None
        while True:
            if self.error is not None:
                outcome = self.error
                break
            runnable = [r for r in range(self.n)
                        if self.status[r] == "ready"
                        or (self.status[r] == "blocked" and self.cond[r]())]
            if not runnable:
                if all(s == "done" for s in self.status):
                    break
                outcome = Deadlock("; ".join("rank %d %s (%s)" % (r, self.status[r], self.why[r])
                                             for r in range(self.n)))
                break
            if steps >= self.step_budget:
                outcome = Violation("no-progress", "step budget %d exhausted" % self.step_budget)
                break
            w = [self.weights[r] for r in runnable]
            r = self.rng.choices(runnable, weights=w)[0]
            self.schedule.append(r)
            steps += 1
            self.current = r
            self.go[r].release()
            self.back.acquire()
        # unwind whatever is still parked
        self.abort = True
        for r in range(self.n):
            if self.status[r] != "done":
                self.go[r].release()
        for t in self.threads:
            t.join(timeout=2.0)
        if isinstance(outcome, Deadlock):
            raise Violation("deadlock", str(outcome))
        if outcome is not None:
            raise outcome
        return self.results


def install(sim):
    """Put the stub mpi4py into sys.modules and route the Manager's
    DistributedConfiguration to the per-rank one.  Returns an undo()."""
    from quantarhei.core.managers import Manager
    from quantarhei.core.parallel import DistributedConfiguration

    class _MPI(types.ModuleType):
        SUM = "SUM"

        @property
        def COMM_WORLD(self):
            r = getattr(threading.current_thread(), "qsim_rank", None)
            if r is None:
                raise ImportError("no simulated rank on this thread")
            return sim.comms[r]

        @staticmethod
        def Get_processor_name():
            return "qsim"

    mpi = _MPI("mpi4py.MPI")
    pkg = types.ModuleType("mpi4py")
    pkg.MPI = mpi
    old = {k: sys.modules.get(k) for k in ("mpi4py", "mpi4py.MPI")}
    sys.modules["mpi4py"] = pkg
    sys.modules["mpi4py.MPI"] = mpi
    old_get = Manager.get_DistributedConfiguration

    def get_dc(self):
        r = getattr(threading.current_thread(), "qsim_rank", None)
        if r is None:
            return old_get(self)
        if sim.configs[r] is None:
            sim.configs[r] = DistributedConfiguration()
        sim.maybe_yield("get_DistributedConfiguration")
        return sim.configs[r]

    Manager.get_DistributedConfiguration = get_dc

    def undo():
        Manager.get_DistributedConfiguration = old_get
        for k, v in old.items():
            if v is None:
                sys.modules.pop(k, None)
            else:
                sys.modules[k] = v
    return undo
