# -*- coding: utf-8 -*-
"""C04 -- basis-change contexts are transparent and self-restoring.

A program is a list of total operations interpreted by a *recursive*
interpreter: `enter` executes a real `with eigenbasis_of(op):` statement whose
body is the interpretation of the following operations up to the matching
`exit`, so exception propagation through nested __exit__ calls is Python's.

Reference model (NumPy only): for every pool object its ground truth X0 in the
depth-0 basis; for the context stack the cumulative transformation
T_d = S_1 ... S_d with every S_k read from Manager().basis_transformations and
verified (unitary, diagonalises the context operator's ground truth with
ascending eigenvalues) instead of trusted.
"""
import copy as _copy

import numpy

from ..core import Violation, SimFault, HarnessError, check, close, maxdiff, fingerprint

TOL = 2e-10

# class name -> field kinds; kinds: op2 [a,b], last3 [a,b,i], first3 [m,a,b], sup4, sup5 [t,a,b,c,d]
FIELDS = {
    "Operator": {"data": "op2"},
    "SelfAdjoint": {"data": "op2"},
    "Hamiltonian": {"data": "op2"},
    "HamiltonianJR": {"data": "op2", "JR": "op2"},
    "RDM": {"data": "op2"},
    "TDM": {"data": "last3"},
    "SuperOp": {"data": "sup4"},
    "RelTensor": {"data": "sup4"},
    "LindbladOps": {"Km": "first3", "Lm": "first3", "Ld": "first3"},
    "RDMEvolution": {"data": "first3"},
    "EvSupOp": {"data": "sup5"},
    "TDRedfield": {"data": "sup5"},
    "TDRedfieldOps": {"Km": "first3", "Lm": "tm4", "Ld": "tm4"},
    "TDFoerster": {"data": "sup5"},
}
CONTEXT_CLASSES = ("SelfAdjoint", "Hamiltonian", "HamiltonianJR", "RDM")
COMPLEX_OK = ("Operator", "SelfAdjoint", "RDM", "SuperOp", "RelTensor", "RDMEvolution", "EvSupOp")
LIBRARY_BUILT = ("TDRedfield", "TDRedfieldOps", "TDFoerster")     # built by the open-system builder from a small aggregate, only before any context
ALL_CLASSES = list(FIELDS)


def tf(kind, X, T, Ti):
    """Representation of X (given in the basis where T = 1) in the basis reached by T."""
    if kind == "op2":
        return Ti @ X @ T
    if kind == "last3":
        return numpy.einsum("ai,ijn,jb->abn", Ti, X, T)
    if kind == "first3":
        return numpy.einsum("ai,mij,jb->mab", Ti, X, T)
    if kind == "sup4":
        return numpy.einsum("ai,jb,ijkl,kc,dl->abcd", Ti, T, X, T, Ti)
    if kind == "sup5":
        return numpy.einsum("ai,jb,tijkl,kc,dl->tabcd", Ti, T, X, T, Ti)
    if kind == "tm4":
        return numpy.einsum("ai,tmij,jb->tmab", Ti, X, T)
    raise HarnessError("unknown field kind " + kind)


def herm(g, n, complex_):
    a = g.uniform(-1, 1, size=(n, n))
    if complex_:
        a = a + 1j * g.uniform(-1, 1, size=(n, n))
    return (a + a.conj().T) / 2.0


class World:
    name = "basisworld"
    prop_id = "C04"
    level = "fault_enumeration"
    quick_enum_bases = 64        # quick tier: all single-fault placements of the first 64 sampled programs (thorough: of all)
    quick_runs = 5000
    thorough_budget_s = 900
    run_timeout = 120.0
    probe_min_runs = 1500
    required_probes = ["degenerate_context", "diagonal_context", "nested_depth_3", "created_at_depth_2",
                       "protected_crossing_exit", "write_inside_context", "context_op_written_in_own_context",
                       "fault_unwinds_2_levels", "first_touch_at_depth_2", "apply_inside_context",
                       "dimension_mismatch_refused", "post_fault_ops_executed", "reenter_after_exit",
                       "object_is_context_operator_twice", "poke_inside_context", "secularize_inside_context",
                       "deepcopy_inside_context", "convert_inside_context", "eso_at_inside_context", "context_operator_not_looked_at", "propagation_inside_context", "time_dependent_tensor_in_pool", "evolution_at_inside_context",
                       "refused_construction_inside_context", "api_sweep_call",
                       "context_object_reentered_while_active", "context_object_entered_again_after_exit",
                       "dipole_component_inside_context", "system_bath_interaction_shared_by_two_tensors",
                       "evolution_reinitialised_inside_context", "basis_change_reports_switched_on", "two_objects_on_one_array"]
    required_faults = ["F1_simfault", "F2_refused_write", "F3_dimension_mismatch"]
    components = {
        "real": ["Manager basis stack / registration / flags", "eigenbasis_of.__enter__/__exit__", "BasisManaged",
                 "basis_managed_array_property / managed_array_property descriptors",
                 "transform() of Operator, SelfAdjointOperator, Hamiltonian (+JR), ReducedDensityMatrix, "
                 "TransitionDipoleMoment, SuperOperator, LindbladForm (tensor and operator form), "
                 "ReducedDensityMatrixEvolution, EvolutionSuperOperator",
                 "SuperOperator.apply, RedfieldRelaxationTensor.apply, Operator.apply, convert_2_tensor, secularize",
                 "prevent_basis_context / enforce_basis_context decorators, Secular.get_secular_basis_operator"],
        "stub": [],
        "reference_model": ["ground truth arrays at depth 0 + cumulative verified transformation per level"],
    }
    assumptions = [
        "the transformation matrices are read from Manager().basis_transformations and verified (unitary, diagonalising, ascending), "
        "which makes degenerate eigenbases decidable",
        "objects still protected when the context in whose basis they are is left are retired (exit skips them by design)",
        "asynchronous exceptions inside library frames are not injected; faults are exceptions at user positions and refused operations",
        "`_data` and get_current_basis() are peeked at without triggering lazy transformation: data must be the representation in "
        "the basis the object claims to be in",
    ]
    rule = ("program = seeded list of enter/exit (real nested `with`), create, read, write, poke, protect/unprotect, apply, copy, "
            "secularize, convert, library propagation, API sweeps, evolution.at / superoperator.at / dipole components, refused "
            "constructions, context-manager objects built ahead / entered again / re-entered, second objects on one array, "
            "re-initialised evolutions and fault ops over a pool of live basis-managed objects (dim 2..4, generic / degenerate / "
            "diagonal / complex-Hermitian context operators; one SystemBathInteraction per run; basis-change reports on in 10 %); thorough tier re-runs each sampled program with a user exception placed at "
            "every position; non-trivial = >=1 context entered and >=1 object accessed or created inside it; distinct = distinct "
            "event-log digests among non-trivial runs")

    # ------------------------------------------------------------------ gen
    def gen(self, rng, tier):
        N = rng.choice([2, 2, 3, 3, 4])
        cplx = rng.random() < 0.15
        kf_zone = rng.random() < 0.12
        classes = [c for c in ALL_CLASSES if (not cplx) or c in COMPLEX_OK or (kf_zone and c in ("LindbladOps", "TDM"))]
        # swarm: subset of classes and op kinds
        if rng.random() < 0.5:
            keep = rng.sample(classes, rng.randint(2, len(classes)))
            classes = [c for c in classes if c in keep]
        if not any(c in CONTEXT_CLASSES for c in classes):
            classes.append("SelfAdjoint")
        opkinds = ["enter", "enter", "exit", "exit", "create", "read", "read", "write", "poke", "protect", "unprotect",
                   "apply", "copy", "secularize", "convert", "fault", "badwrite", "opapply", "opadd", "esoat", "libprop", "evat", "badcreate", "apisweep", "tdmcomp", "evreinit", "alias"]
        if rng.random() < 0.5:
            drop = rng.sample(["poke", "protect", "apply", "copy", "secularize", "convert", "fault", "badwrite", "opapply", "opadd", "esoat", "libprop", "evat", "badcreate", "apisweep", "tdmcomp", "evreinit", "alias"],
                              rng.randint(1, 5))
            opkinds = [k for k in opkinds if k not in drop]
        faultfree = rng.random() < 0.35
        if faultfree:
            opkinds = [k for k in opkinds if k not in ("fault", "badwrite", "badcreate")]
        odd = (not faultfree) and rng.random() < 0.2
        pre = []
        for _ in range(rng.randint(1, 4)):
            pre.append(self._gen_create(rng, classes, force_ctx=(len(pre) == 0)))
        if odd:
            pre.append({"op": "create", "cls": "SelfAdjoint", "pay": rng.randrange(1 << 30), "shape": "generic", "odd": True})
        n = rng.randint(3, 40)
        ops = list(pre)
        # swarm member: context-manager objects built ahead of their use, entered several times and re-entered
        ctxobjs = rng.random() < 0.3
        if ctxobjs:
            opkinds = opkinds + ["mkctx", "enter"]
            ops.append({"op": "mkctx", "k": rng.randrange(16)})
        for _ in range(n):
            k = rng.choice(opkinds)
            if k == "create":
                ops.append(self._gen_create(rng, classes))
            elif k == "enter":
                e = {"op": "enter", "k": rng.randrange(16), "look": rng.random() < 0.6}
                if ctxobjs and rng.random() < 0.6:
                    e["use"] = rng.randrange(8)
                ops.append(e)
            elif k == "mkctx":
                ops.append({"op": "mkctx", "k": rng.randrange(16)})
            elif k == "exit":
                ops.append({"op": "exit"})
            elif k == "fault":
                ops.append({"op": "fault", "unwind": rng.choice([1, 1, 2, 3])})
            elif k in ("write", "poke"):
                ops.append({"op": k, "k": rng.randrange(16), "pay": rng.randrange(1 << 30),
                            "i": rng.randrange(4), "j": rng.randrange(4)})
            elif k == "apply":
                ops.append({"op": "apply", "s": rng.randrange(16), "k": rng.randrange(16), "copy": rng.random() < 0.5})
            elif k == "copy":
                ops.append({"op": "copy", "k": rng.randrange(16), "how": rng.choice(["deepcopy", "deepcopy", "scopy"])})
            else:
                ops.append({"op": k, "k": rng.randrange(16), "s": rng.randrange(16), "i": rng.randrange(8), "j": rng.randrange(8)})
        # configuration: the Manager's documented option to report every basis change
        return {"N": N, "complex": cplx, "kf_zone": kf_zone, "warn": rng.random() < 0.1, "ops": ops}

    def _gen_create(self, rng, classes, force_ctx=False):
        cls = rng.choice([c for c in classes if c in CONTEXT_CLASSES]) if force_ctx else rng.choice(classes)
        op = {"op": "create", "cls": cls, "pay": rng.randrange(1 << 30),
              "shape": rng.choice(["generic", "generic", "degenerate", "diagonal"])}
        if cls in ("RelTensor", "LindbladOps") and rng.random() < 0.5:
            op["native"] = True      # keep what the library constructor computed (no overwrite)
        return op

    def fault_variants(self, base, rng):
        ops = base["ops"]
        for pos in range(len(ops) + 1):
            new = list(ops)
            new.insert(pos, {"op": "fault", "unwind": 1 + (pos + rng.randrange(3)) % 3})
            yield dict(base, ops=new)

    # ------------------------------------------------------------------ run
    def run(self, program, ctx):
        Runner(program, ctx).go()

    # --------------------------------------------------- failure bookkeeping
    def crude_signature(self, program, oracle):
        return "%s|kf=%s|complex=%s" % (oracle, program.get("kf_zone"), program.get("complex"))

    def matches_finding(self, entry, program, oracle):
        need = entry.get("needs", {})
        ops = program["ops"]
        if need.get("kf_zone") and not program.get("kf_zone"):
            return False
        if need.get("complex") and not program.get("complex"):
            return False
        if need.get("native_create") and not any(o["op"] == "create" and o.get("native") for o in ops):
            return False
        if need.get("any_class") and not any(o["op"] == "create" and o["cls"] in need["any_class"] for o in ops):
            return False
        for kind in need.get("op_kinds", []):
            if not any(o["op"] == kind for o in ops):
                return False
        for cls in need.get("classes", []):
            if not any(o["op"] == "create" and o["cls"] == cls for o in ops):
                return False
        return True

    def simplify(self, program):
        if program["N"] > 2:
            yield dict(program, N=2)
        ops = program["ops"]
        for i, op in enumerate(ops):
            if op["op"] == "create" and op.get("shape") != "generic":
                new = list(ops)
                new[i] = dict(op, shape="generic")
                yield dict(program, ops=new)
            for key in ("k", "s", "i", "j"):
                if op.get(key):
                    new = list(ops)
                    new[i] = dict(op, **{key: 0})
                    yield dict(program, ops=new)
            if op["op"] == "fault" and op["unwind"] > 1:
                new = list(ops)
                new[i] = dict(op, unwind=1)
                yield dict(program, ops=new)


class Obj:
    __slots__ = ("cls", "real", "X0", "dim", "alive", "protected_at", "frozen", "nm", "name", "retired_protected", "shared")


class Runner:
    def __init__(self, program, ctx):
        import quantarhei as qr
        from quantarhei.core.managers import Manager
        from quantarhei.core.wrappers import prevent_basis_context, enforce_basis_context
        self.qr = qr
        self.m = Manager()
        self.program = program
        self.ctx = ctx
        self.N = program["N"]
        self.cplx = program["complex"]
        self.kf = program.get("kf_zone", False)
        self.pool = []
        self.levels = []        # dicts: S, T, Ti, dim, opk, pre
        self.accessed_inside = 0
        self.entered = 0
        self.exits_done = 0
        self.ctxobjs = []
        self.sbi_cache = {}
        self.cm_used = set()
        self.cm_next = None
        self.ta = qr.TimeAxis(0.0, 3, 1.0)

        @prevent_basis_context
        def outside_only():
            return True

        @enforce_basis_context
        def inside_only():
            return True
        self.outside_only = outside_only
        self.inside_only = inside_only

    # ---------------------------------------------------------------- helpers
    @property
    def depth(self):
        return len(self.levels)

    def TTi(self, L, dim):
        if L == 0:
            e = numpy.eye(dim)
            return e, e
        lv = self.levels[L - 1]
        return lv["T"], lv["Ti"]

    def level_of(self, o):
        bid = o.real.get_current_basis()
        st = list(self.m.basis_stack)
        if bid not in st:
            return None
        return st.index(bid)

    def compatible(self, o, upto=None):
        L = self.level_of(o)
        if L is None:
            return True
        upto = self.depth if upto is None else upto
        return all(self.levels[j]["dim"] == o.dim for j in range(L, upto))

    def expected_fields(self, o, L):
        T, Ti = self.TTi(L, o.dim)
        return {f: tf(k, o.X0[f], T, Ti) for f, k in FIELDS[o.cls].items()}

    def raw(self, o, f):
        if o.cls == "HamiltonianJR" and f == "JR":
            return getattr(o.real, "JR", None)
        return getattr(o.real, "_" + f, None)

    def scale(self, o):
        return max(1.0, max(float(numpy.max(numpy.abs(v))) if v.size else 0.0 for v in o.X0.values()))

    # -------------------------------------------------- invariants (no lazy transform triggered)
    def peek_all(self, what):
        stack = list(self.m.basis_stack)
        for n, o in enumerate(self.pool):
            if not o.alive:
                if getattr(o, "retired_protected", False):
                    # an object that crossed an exit while protected keeps whatever data it had (by design), but its
                    # basis label belongs to the bookkeeping: it must name a basis that exists
                    bid = o.real.get_current_basis()
                    check(bid in stack, "object-basis-on-stack",
                          lambda: "%s: object #%d (%s), protected when its context was left, carries basis id %r, stack is %r"
                          % (what, n, o.cls, bid, stack))
                continue
            bid = o.real.get_current_basis()
            check(bid in stack, "object-basis-on-stack",
                  lambda: "%s: object #%d (%s) carries basis id %r, stack is %r" % (what, n, o.cls, bid, stack))
            L = stack.index(bid)
            if not all(self.levels[j]["dim"] == o.dim for j in range(0, L)):
                continue
            exp = self.expected_fields(o, L)
            for f in exp:
                got = self.raw(o, f)
                if got is None:
                    continue
                check(close(numpy.asarray(got), exp[f], rtol=TOL, scale=self.scale(o)), "representation-matches-claimed-basis",
                      lambda: "%s: object #%d (%s.%s) claims basis level %d but its data differ from the ground truth "
                              "transformed there: %s" % (what, n, o.cls, f, L, maxdiff(numpy.asarray(got), exp[f])))

    def bookkeeping(self):
        try:
            self.outside_only()
            flag_out = True
        except Exception:
            flag_out = False
        try:
            self.inside_only()
            flag_in = True
        except Exception:
            flag_in = False
        return {"current": self.m.get_current_basis(), "stack": len(self.m.basis_stack),
                "transf": len(self.m.basis_transformations), "registered": sorted(self.m.basis_registered.keys()),
                "outside_allowed": flag_out, "inside_allowed": flag_in}

    def check_bookkeeping(self, pre, what):
        now = self.bookkeeping()
        for k in pre:
            check(now[k] == pre[k], "bookkeeping-restored:" + k,
                  lambda: "%s: %s is %r, was %r before the matching entry" % (what, k, now[k], pre[k]))
        exp_out = (self.depth == 0)
        check(now["outside_allowed"] == exp_out and now["inside_allowed"] == (not exp_out), "context-flag",
              lambda: "%s: depth %d but prevent/enforce_basis_context probes say outside_allowed=%r inside_allowed=%r"
              % (what, self.depth, now["outside_allowed"], now["inside_allowed"]))

    def check_current_operator(self, what):
        exp = self.pool[self.levels[-1]["opk"]].real if self.levels else None
        got = self.m.current_basis_operator
        check(got is exp, "bookkeeping-current-basis-operator",
              lambda: "%s: depth %d, Manager reports current basis operator %s, expected %s"
              % (what, self.depth, "None" if got is None else type(got).__name__,
                 "None" if exp is None else "the operator of the innermost active context"))

    # ---------------------------------------------------------------- payloads
    def payload(self, cls, seed, shape, dim):
        g = numpy.random.Generator(numpy.random.PCG64(seed))
        c = self.cplx and cls in COMPLEX_OK

        def hermshape():
            if shape == "diagonal":
                return numpy.diag(numpy.sort(g.uniform(-1, 1, size=dim))[::-1]).astype(complex if c else float)
            if shape == "degenerate" and dim >= 2:
                q, _ = numpy.linalg.qr(herm(g, dim, c) + numpy.eye(dim))
                ev = g.uniform(-1, 1, size=dim)
                ev[1] = ev[0]
                if dim >= 4 and g.random() < 0.5:
                    ev[3] = ev[2]
                h = (q * ev) @ q.conj().T
                return (h + h.conj().T) / 2.0
            return herm(g, dim, c)
        if cls == "Operator":
            a = g.uniform(-1, 1, size=(dim, dim))
            return {"data": (a + 1j * g.uniform(-1, 1, size=(dim, dim))) if True else a}
        if cls in ("SelfAdjoint", "RDM"):
            return {"data": hermshape()}
        if cls == "Hamiltonian":
            return {"data": numpy.real(hermshape())}
        if cls == "HamiltonianJR":
            h = numpy.real(herm(g, dim, False))
            return {"data": h, "JR": None}
        if cls == "TDM":
            d = numpy.zeros((dim, dim, 3))
            for i in range(3):
                d[:, :, i] = numpy.real(herm(g, dim, False))
            return {"data": d}
        if cls in ("SuperOp", "RelTensor"):
            a = g.uniform(-1, 1, size=(dim,) * 4) + 1j * g.uniform(-1, 1, size=(dim,) * 4)
            return {"data": a}
        if cls == "LindbladOps":
            nm = 2
            K = numpy.zeros((nm, dim, dim))
            for m in range(nm):
                K[m] = numpy.real(herm(g, dim, False))
            L = g.uniform(-1, 1, size=(nm, dim, dim)) + 1j * g.uniform(-1, 1, size=(nm, dim, dim))
            return {"Km": K, "Lm": L, "Ld": numpy.conj(numpy.transpose(L, (0, 2, 1)))}
        if cls == "RDMEvolution":
            a = g.uniform(-1, 1, size=(3, dim, dim)) + 1j * g.uniform(-1, 1, size=(3, dim, dim))
            a = (a + numpy.conj(numpy.transpose(a, (0, 2, 1)))) / 2.0      # every time slice is a Hermitian matrix
            if not c:
                a = numpy.real(a) + 0j
            return {"data": a}
        if cls == "EvSupOp":
            a = g.uniform(-1, 1, size=(3,) + (dim,) * 4) + 1j * g.uniform(-1, 1, size=(3,) + (dim,) * 4)
            return {"data": a}
        if cls in LIBRARY_BUILT:
            return {"seed": int(g.integers(0, 1 << 20))}
        raise HarnessError("unknown class " + cls)

    def construct(self, cls, Y, dim, native=False):
        qr = self.qr
        if cls == "Operator":
            return qr.qm.Operator(data=Y["data"].copy())
        if cls == "SelfAdjoint":
            return qr.qm.SelfAdjointOperator(data=Y["data"].copy())
        if cls == "RDM":
            return qr.ReducedDensityMatrix(data=Y["data"].copy())
        if cls == "Hamiltonian":
            return qr.Hamiltonian(data=Y["data"].copy())
        if cls == "HamiltonianJR":
            H = qr.Hamiltonian(data=Y["data"].copy())
            H.subtract_cutoff_coupling(0.05)
            return H
        if cls == "TDM":
            return qr.qm.TransitionDipoleMoment(data=Y["data"].copy())
        if cls == "SuperOp":
            return qr.qm.SuperOperator(data=Y["data"].copy())
        if cls in ("RelTensor", "LindbladOps"):
            from quantarhei.qm import LindbladForm, SystemBathInteraction
            H = qr.Hamiltonian(data=numpy.diag(numpy.arange(dim, dtype=float)))
            ops = []
            for (a, b) in ((0, 1), (1, 0)):
                ops.append(qr.qm.ProjectionOperator(a, b, dim=dim))
            # ONE system-bath interaction object per dimension serves every tensor of the run (as in user code)
            if dim not in self.sbi_cache:
                self.sbi_cache[dim] = SystemBathInteraction(sys_operators=ops, rates=[0.1, 0.05])
            else:
                self.ctx.probe("system_bath_interaction_shared_by_two_tensors")
            sbi = self.sbi_cache[dim]
            if cls == "RelTensor":
                LF = LindbladForm(H, sbi, as_operators=False)
                if not native:
                    LF.data = Y["data"].copy()
            else:
                LF = LindbladForm(H, sbi, as_operators=True)
                if not native:
                    LF.Km = Y["Km"].copy()
                    LF.Lm = Y["Lm"].copy()
                    LF.Ld = Y["Ld"].copy()
            return LF
        if cls == "RDMEvolution":
            r0 = Y["data"][0]
            rho = qr.ReducedDensityMatrix(data=(r0 + r0.conj().T) / 2.0)
            ev = qr.qm.ReducedDensityMatrixEvolution(self.ta, rhoi=rho)
            ev.data = Y["data"].copy()
            return ev
        if cls in LIBRARY_BUILT:
            g = numpy.random.Generator(numpy.random.PCG64(Y["seed"]))
            ta = qr.TimeAxis(0.0, 6, 10.0)
            with qr.energy_units("1/cm"):
                mols = []
                for i in range(dim - 1):
                    m = qr.Molecule([0.0, 12000.0 + float(g.integers(0, 300))])
                    cf = qr.CorrelationFunction(ta, dict(ftype="OverdampedBrownian", reorg=float(g.integers(20, 60)),
                                                         cortime=float(g.integers(40, 120)), T=300, matsubara=10))
                    m.set_transition_environment((0, 1), cf)
                    mols.append(m)
                agg = qr.Aggregate(mols)
                for i in range(dim - 2):
                    agg.set_resonance_coupling(i, i + 1, float(g.integers(30, 150)))
            agg.build()
            if cls == "TDFoerster":
                # a time-dependent tensor that uses the generic 5-index transformation of RelaxationTensor
                RT, ham = agg.get_RelaxationTensor(ta, relaxation_theory="stF", time_dependent=True)
            else:
                RT, ham = agg.get_RelaxationTensor(ta, relaxation_theory="stR", time_dependent=True, as_operators=(cls == "TDRedfieldOps"))
            return RT
        if cls == "EvSupOp":
            H = qr.Hamiltonian(data=numpy.diag(numpy.arange(dim, dtype=float)))
            U = qr.qm.EvolutionSuperOperator(time=self.ta, ham=H)
            U.data = Y["data"].copy()
            return U
        raise HarnessError("unknown class " + cls)

    # ---------------------------------------------------------------- pool helpers
    def blocked(self, o):
        """Outside the known-findings zone, objects of classes with real-typed storage are left alone while a context
        whose transformation matrix came out complex is active (LAPACK may return complex eigenvectors for an operator
        whose array is complex-typed although its values are real): that is the territory of the known finding
        C04-operator-form-complex-basis and must not leak into the clean zones."""
        if o.cls in COMPLEX_OK or (self.kf and self.cplx):
            return False
        return any(l.get("complexS") for l in self.levels)

    def pick(self, k, pred=lambda o: True):
        cand = [n for n, o in enumerate(self.pool) if o.alive and not self.blocked(o) and pred(o)]
        if not cand:
            return None
        return cand[k % len(cand)]

    def add_obj(self, cls, real, X0, dim):
        o = Obj()
        o.cls, o.real, o.X0, o.dim = cls, real, X0, dim
        o.alive = True
        o.protected_at = None
        o.frozen = None
        self.pool.append(o)
        if self.depth >= 2:
            self.ctx.probe("created_at_depth_2")
        return len(self.pool) - 1

    def back(self, cls, Y, dim):
        """Ground truth of an object whose fields Y are given in the current basis."""
        if self.depth == 0:
            return {f: numpy.array(v, dtype=complex) for f, v in Y.items()}
        T, Ti = self.TTi(self.depth, dim)
        return {f: tf(FIELDS[cls][f], numpy.asarray(Y[f], dtype=complex), Ti, T) for f in Y}

    def public_fields(self, o):
        out = {}
        for f in FIELDS[o.cls]:
            if o.cls == "HamiltonianJR" and f == "JR":
                continue
            out[f] = numpy.array(getattr(o.real, f))
        if o.cls == "HamiltonianJR":
            out["JR"] = numpy.array(o.real.JR)
        return out

    def touch_probe(self, o):
        L = self.level_of(o)
        if self.depth >= 2 and L == 0:
            self.ctx.probe("first_touch_at_depth_2")
        if self.depth >= 1:
            self.accessed_inside += 1

    def eligible_context_operator(self, o):
        """Self-adjoint, unprotected; complex Hermitian operators only in the complex swarm member."""
        if o.cls not in CONTEXT_CLASSES or o.protected_at is not None:
            return False
        H = o.X0["data"]
        sc = max(1.0, float(numpy.max(numpy.abs(H))))
        if float(numpy.max(numpy.abs(H - H.conj().T))) > 1e-12 * sc:
            return False
        if not self.cplx:
            # the ground truth must be real symmetric in the basis the context is entered from
            T, Ti = self.TTi(self.depth, o.dim) if all(l["dim"] == o.dim for l in self.levels) else (None, None)
            if T is None:
                return False
            Hh = Ti @ H @ T
            if float(numpy.max(numpy.abs(Hh.imag))) > 1e-12 * sc:
                return False
        return True

    def access_expected_refusal(self, o):
        return not self.compatible(o)

    # ---------------------------------------------------------------- interpreter
    def go(self):
        ops = self.program["ops"]
        self.ctx.ev("cfg", self.N, self.cplx, self.kf)
        if self.program.get("warn"):
            self.m.warn_about_basis_change = True
            self.ctx.probe("basis_change_reports_switched_on")
        try:
            self.interp(ops, 0)
        except SimFault:
            raise HarnessError("SimFault escaped depth 0")
        finally:
            self.m.warn_about_basis_change = False
        check(self.depth == 0, "harness", "interpreter ended at depth %d" % self.depth)
        # restoration at depth 0
        self.check_bookkeeping({"current": 0, "stack": 1, "transf": 1, "registered": []}, "end of program")
        self.check_current_operator("end of program")
        self.peek_all("end of program")
        for n, o in enumerate(self.pool):
            if not o.alive:
                continue
            check(o.real.get_current_basis() == 0, "restored-basis-id",
                  lambda: "object #%d (%s) carries basis id %r at depth 0" % (n, o.cls, o.real.get_current_basis()))
            try:
                got = self.public_fields(o)
            except Exception as e:
                raise Violation("restored-read-raises", "object #%d (%s): %s: %s" % (n, o.cls, type(e).__name__, e))
            for f in got:
                check(close(got[f], o.X0[f], rtol=TOL, scale=self.scale(o)), "restored-representation",
                      lambda: "object #%d (%s.%s) after all contexts are left: %s" % (n, o.cls, f, maxdiff(got[f], o.X0[f])))
        self.ctx.nontrivial = self.entered >= 1 and self.accessed_inside >= 1

    def interp(self, ops, i):
        """Interpret ops[i:] at the current depth; return the index after the matching exit."""
        while i < len(ops):
            op = ops[i]
            self.ctx.step()
            kind = op["op"]
            if kind == "enter":
                i = self.do_enter(ops, i)
                continue
            if kind == "exit":
                if self.depth == 0:
                    self.ctx.ev(i, "exit", "noop")
                    i += 1
                    continue
                self.ctx.ev(i, "exit", self.depth)
                return i + 1
            if kind == "fault":
                if self.depth == 0:
                    self.ctx.ev(i, "fault", "noop")
                    i += 1
                    continue
                self.ctx.fault("F1_simfault")
                f = SimFault("injected at op %d" % i)
                f.unwind = min(op["unwind"], self.depth)
                f.resume = i + 1
                if f.unwind >= 2:
                    self.ctx.probe("fault_unwinds_2_levels")
                self.ctx.ev(i, "fault", f.unwind, self.depth)
                raise f
            self.execute(i, op)
            self.peek_all("after op %d (%s)" % (i, kind))
            i += 1
        return i

    def do_enter(self, ops, i):
        op = ops[i]
        cm = None
        if "use" in op and self.ctxobjs:
            # a context-manager object built earlier (possibly in another basis, possibly active right now)
            cmk, cm = self.ctxobjs[op["use"] % len(self.ctxobjs)]
            oo = self.pool[cmk]
            k = cmk if (oo.alive and not self.blocked(oo) and self.eligible_context_operator(oo)) else None
        else:
            k = self.pick(op["k"], self.eligible_context_operator)
        if k is None or self.depth >= 4:
            self.ctx.ev(i, "enter", "noop")
            return i + 1
        o = self.pool[k]
        if self.access_expected_refusal(o):
            self.ctx.ev(i, "enter", "noop-incompatible")
            return i + 1
        pre = self.bookkeeping()
        pre_op = self.m.current_basis_operator
        eb = self.qr.eigenbasis_of
        entered = False
        fault = None
        nxt = None
        d0 = self.depth
        # ground truth of the context operator in the basis we are in (its presentation at depth d0)
        T, Ti = self.TTi(d0, o.dim)
        H_here = tf("op2", o.X0["data"], T, Ti)
        if any(l["opk"] == k for l in self.levels) or getattr(o, "name", None) == "ctx-before":
            self.ctx.probe("object_is_context_operator_twice")
        o.name = "ctx-before"
        if cm is None:
            cm = eb(o.real)
        else:
            if any(l.get("cm") is cm for l in self.levels):
                self.ctx.probe("context_object_reentered_while_active")
            elif id(cm) in self.cm_used:
                self.ctx.probe("context_object_entered_again_after_exit")
            self.cm_used.add(id(cm))
        self.cm_next = cm
        try:
            with cm:
                entered = True
                self.push_level(k, o, H_here, pre, i)
                nxt = self.interp(ops, i + 1)
        except SimFault as f:
            fault = f
        except (Violation, HarnessError):
            raise
        except Exception as e:
            # everything the body does is wrapped, so this comes from __enter__ or __exit__ themselves
            raise Violation("context-exit-raises" if entered else "context-enter-raises",
                            "context entered at op %d (depth %d): %s: %s" % (i, d0 + 1, type(e).__name__, e))
        if not entered:
            if fault is not None:
                raise HarnessError("SimFault without entering")
            raise HarnessError("context not entered")
        # __exit__ has run (normally or with the exception in flight)
        self.pop_level(i, fault is not None)
        self.check_bookkeeping(pre, "after leaving the context entered at op %d (%s)" % (i, "exception" if fault else "normal"))
        check(self.m.current_basis_operator is pre_op or True, "harness", "")
        self.check_current_operator("after leaving the context entered at op %d" % i)
        self.peek_all("after leaving the context entered at op %d" % i)
        if fault is not None:
            fault.unwind -= 1
            if fault.unwind > 0:
                raise fault
            self.ctx.probe("post_fault_ops_executed") if fault.resume < len(ops) else None
            return fault.resume
        return nxt if nxt is not None else len(ops)

    def push_level(self, k, o, H_here, pre, i):
        S_typed_complex = bool(numpy.iscomplexobj(self.m.basis_transformations[-1]))
        S = numpy.array(self.m.basis_transformations[-1], dtype=complex)
        check(S.shape == (o.dim, o.dim), "transformation-shape", "S has shape %r" % (S.shape,))
        Si = numpy.linalg.inv(S)
        check(close(S.conj().T @ S, numpy.eye(o.dim), rtol=0, atol=1e-11), "transformation-unitary",
              lambda: "context entered at op %d: S^+ S differs from 1 by %s" % (i, maxdiff(S.conj().T @ S, numpy.eye(o.dim))))
        D = Si @ H_here @ S
        off = D - numpy.diag(numpy.diag(D))
        sc = max(1.0, float(numpy.max(numpy.abs(H_here))))
        check(float(numpy.max(numpy.abs(off))) <= TOL * sc, "context-operator-diagonal",
              lambda: "context entered at op %d: off-diagonal part %g" % (i, numpy.max(numpy.abs(off))))
        ev = numpy.real(numpy.diag(D))
        check(numpy.all(numpy.diff(ev) >= -TOL * sc), "eigenvalues-ascending",
              lambda: "context entered at op %d: eigenvalues %r" % (i, ev.tolist()))
        dd = numpy.diff(ev)
        if dd.size and numpy.min(numpy.abs(dd)) < 1e-9:
            self.ctx.probe("degenerate_context")
        if float(numpy.max(numpy.abs(H_here - numpy.diag(numpy.diag(H_here))))) < 1e-14:
            self.ctx.probe("diagonal_context")
        Tp, Tpi = self.TTi(self.depth, o.dim) if all(l["dim"] == o.dim for l in self.levels) else (numpy.eye(o.dim), numpy.eye(o.dim))
        T = Tp @ S
        self.levels.append({"S": S, "T": T, "Ti": numpy.linalg.inv(T), "dim": o.dim, "opk": k, "pre": pre, "cm": self.cm_next,
                            "complexS": bool(numpy.max(numpy.abs(S.imag)) > 1e-14), "typedComplexS": S_typed_complex})
        if self.levels[-1]["complexS"] and not self.cplx:
            self.ctx.probe("complex_eigenvectors_of_real_valued_operator")
        self.entered += 1
        if self.depth >= 3:
            self.ctx.probe("nested_depth_3")
        if self.exits_done:
            self.ctx.probe("reenter_after_exit")
        self.ctx.ev(i, "enter", k, o.cls, self.depth, fingerprint(numpy.abs(D)))
        self.ctx.cov("enter", o.cls, self.depth, dd.size and bool(numpy.min(numpy.abs(dd)) < 1e-9))
        self.check_bookkeeping({}, "inside the context entered at op %d" % i)
        self.check_current_operator("inside the context entered at op %d" % i)
        # the context operator itself must be presented diagonal (looking at it is an access like any other,
        # so it is a seeded part of the program: untouched context operators keep their array across the context)
        if not self.program["ops"][i].get("look", True):
            self.ctx.probe("context_operator_not_looked_at")
            self.peek_all("after entering the context at op %d" % i)
            return
        try:
            Hd = numpy.array(o.real.data)
        except Exception as e:
            raise Violation("context-operator-read-raises", "%s: %s" % (type(e).__name__, e))
        check(close(Hd, numpy.diag(ev), rtol=TOL, scale=sc), "context-operator-presented-diagonal",
              lambda: "context entered at op %d: operator reads %s from diag(eigenvalues)" % (i, maxdiff(Hd, numpy.diag(ev))))
        self.peek_all("after entering the context at op %d" % i)

    def pop_level(self, i, exceptional):
        d = self.depth
        lv = self.levels[-1]
        # objects protected while in the basis of the context being left are retired
        for n, o in enumerate(self.pool):
            if o.alive and o.protected_at is not None:
                if o.protected_at >= d or True:
                    # the object's claimed level was frozen at protection time
                    if o.frozen is not None and o.frozen[0] >= d:
                        o.alive = False
                        o.retired_protected = True
                        self.ctx.probe("protected_crossing_exit")
        self.levels.pop()
        self.exits_done += 1
        self.ctx.ev(i, "left", d, exceptional)
        self.ctx.cov("exit", d, exceptional)

    # ---------------------------------------------------------------- single ops
    def execute(self, i, op):
        kind = op["op"]
        h = getattr(self, "op_" + kind, None)
        if h is None:
            self.ctx.ev(i, "noop", kind)
            return
        h(i, op)

    def op_mkctx(self, i, op):
        """Builds a context-manager object without entering it (the library does so itself in PureDephasing.eigenbasis);
        building one is not entering one: nothing of the bookkeeping may move."""
        k = self.pick(op["k"], lambda o: o.cls in CONTEXT_CLASSES)
        if k is None or len(self.ctxobjs) >= 4:
            self.ctx.ev(i, "mkctx", "noop")
            return
        pre = self.bookkeeping()
        try:
            cm = self.qr.eigenbasis_of(self.pool[k].real)
        except Exception as e:
            raise Violation("context-construction-raises", "%s: %s" % (type(e).__name__, e))
        self.ctxobjs.append((k, cm))
        self.ctx.ev(i, "mkctx", k, self.depth)
        self.check_bookkeeping(pre, "after building (not entering) a context-manager object at op %d" % i)
        self.check_current_operator("after building (not entering) a context-manager object at op %d" % i)

    def op_create(self, i, op):
        dim = self.N if not op.get("odd") else (self.N + 1 if self.N < 4 else 2)
        cls = op["cls"]
        if cls in ("RelTensor", "LindbladOps") and self.depth >= 1 and not self.kf:
            # library constructors of relaxation tensors take site-basis inputs (see known findings);
            # outside the dedicated zone they are built before any context
            self.ctx.ev(i, "create", cls, "noop-depth")
            return
        if any(l["dim"] != dim for l in self.levels):
            self.ctx.ev(i, "create", cls, "noop-dim")
            return
        if self.cplx and cls not in COMPLEX_OK and not (self.kf and cls in ("LindbladOps", "TDM")):
            self.ctx.ev(i, "create", cls, "noop-complex")
            return
        if cls not in COMPLEX_OK and not (self.kf and self.cplx) and any(l.get("complexS") for l in self.levels):
            self.ctx.ev(i, "create", cls, "noop-complex-eigenvectors")      # see blocked()
            return
        if cls in LIBRARY_BUILT and (self.depth >= 1 or self.cplx):
            self.ctx.ev(i, "create", cls, "noop-depth")
            return
        Y = self.payload(cls, op["pay"], op.get("shape", "generic"), dim)
        native = bool(op.get("native")) and cls in ("RelTensor", "LindbladOps")
        try:
            real = self.construct(cls, {f: v for f, v in Y.items() if v is not None}, dim, native=native)
        except Exception as e:
            raise Violation("create-raises", "op %d creating %s at depth %d: %s: %s" % (i, cls, self.depth, type(e).__name__, e))
        if cls == "HamiltonianJR":
            Y = {"data": numpy.array(real._data, dtype=complex), "JR": numpy.array(real.JR, dtype=complex)}
        if cls in LIBRARY_BUILT:
            Y = {f: numpy.array(getattr(real, f), dtype=complex) for f in FIELDS[cls]}
            self.ctx.probe("time_dependent_tensor_in_pool")
        if native:
            # the same inputs give the same physical tensor wherever it is built: the ground truth is the
            # site-basis Lindblad form of the two projectors |0><1|, |1><0| with rates 0.1, 0.05
            X0 = self.native_lindblad(cls, dim)
            self.ctx.probe("native_tensor_built_inside_context") if self.depth >= 1 else None
        else:
            X0 = self.back(cls, Y, dim)
        n = self.add_obj(cls, real, X0, dim)
        if self.depth >= 1:
            self.accessed_inside += 1
        self.ctx.ev(i, "create", cls, n, self.depth, fingerprint(*[X0[f] for f in sorted(X0)]))
        self.ctx.cov("create", cls, self.depth)

    def native_lindblad(self, cls, dim):
        K = numpy.zeros((2, dim, dim), dtype=complex)
        K[0, 0, 1] = 1.0
        K[1, 1, 0] = 1.0
        rates = [0.1, 0.05]
        Lm = numpy.array([rates[m] * K[m] / 2.0 for m in range(2)])
        Ld = numpy.transpose(Lm, (0, 2, 1)).copy()
        if cls == "LindbladOps":
            return {"Km": K, "Lm": Lm, "Ld": Ld}
        R = numpy.zeros((dim,) * 4, dtype=complex)
        I = numpy.eye(dim)
        for m in range(2):
            Kd = K[m].T
            R += numpy.einsum("ac,db->abcd", K[m], Ld[m]) + numpy.einsum("ac,db->abcd", Lm[m], Kd)
            R -= numpy.einsum("ac,db->abcd", Kd @ Lm[m], I)
            R -= numpy.einsum("ac,db->abcd", I, Ld[m] @ K[m])
        return {"data": R}

    def _expected_presented(self, o):
        if o.protected_at is not None:
            L = o.frozen[0]
        else:
            L = self.depth
        return self.expected_fields(o, L)

    def op_read(self, i, op):
        n = self.pick(op["k"])
        if n is None:
            return
        o = self.pool[n]
        refuse = (o.protected_at is None) and self.access_expected_refusal(o)
        self.touch_probe(o)
        try:
            got = self.public_fields(o)
            raised = None
        except Exception as e:
            raised = e
        if refuse:
            self.ctx.fault("F3_dimension_mismatch")
            self.ctx.probe("dimension_mismatch_refused")
            check(raised is not None, "dimension-mismatch-not-refused", "op %d: read of object #%d succeeded" % (i, n))
            self.ctx.ev(i, "read", n, "refused")
            return
        if raised is not None:
            raise Violation("read-raises", "op %d: reading object #%d (%s) at depth %d: %s: %s"
                            % (i, n, o.cls, self.depth, type(raised).__name__, raised))
        exp = self._expected_presented(o)
        for f in got:
            check(close(got[f], exp[f], rtol=TOL, scale=self.scale(o)), "presented-in-context-basis",
                  lambda: "op %d: object #%d (%s.%s) read at depth %d: %s" % (i, n, o.cls, f, self.depth, maxdiff(got[f], exp[f])))
        self.ctx.ev(i, "read", n, o.cls, self.depth, fingerprint(*[got[f] for f in sorted(got)]))
        self.ctx.cov("read", o.cls, self.depth, o.protected_at is not None)

    def _writable(self, o):
        # objects that share their array with another object are read and used, not written (a write into one of them is
        # a write into the other by construction, whatever the basis)
        return o.protected_at is None and o.cls != "HamiltonianJR" and o.cls not in LIBRARY_BUILT and not getattr(o, "shared", False)

    def op_write(self, i, op):
        n = self.pick(op["k"], self._writable)
        if n is None:
            return
        o = self.pool[n]
        if self.access_expected_refusal(o):
            return
        Y = self.payload(o.cls, op["pay"], "generic", o.dim)
        self.touch_probe(o)
        try:
            for f, v in Y.items():
                setattr(o.real, f, v.copy())
        except Exception as e:
            raise Violation("write-raises", "op %d: writing object #%d (%s) at depth %d: %s: %s"
                            % (i, n, o.cls, self.depth, type(e).__name__, e))
        o.X0 = self.back(o.cls, Y, o.dim)
        if self.depth >= 1:
            self.ctx.probe("write_inside_context")
            if self.levels[-1]["opk"] == n or any(l["opk"] == n for l in self.levels):
                self.ctx.probe("context_op_written_in_own_context")
        self.ctx.ev(i, "write", n, o.cls, self.depth)
        self.ctx.cov("write", o.cls, self.depth)

    def op_poke(self, i, op):
        n = self.pick(op["k"], lambda o: self._writable(o) and o.cls not in ("Hamiltonian",))
        if n is None:
            return
        o = self.pool[n]
        if self.access_expected_refusal(o):
            return
        self.touch_probe(o)
        f = sorted(FIELDS[o.cls])[0]
        try:
            arr = getattr(o.real, f)
            idx = tuple((op["i"] if a % 2 == 0 else op["j"]) % s for a, s in enumerate(arr.shape))
            val = 0.25 + 0.5 * ((op["pay"] % 7) - 3)
            arr[idx] = val
            idx2 = None
            if o.cls in ("SelfAdjoint", "RDM"):
                # keep self-adjoint classes self-adjoint (they may become context operators later)
                idx2 = (idx[1], idx[0])
                arr[idx2] = val
        except Exception as e:
            raise Violation("poke-raises", "op %d: %s: %s" % (i, type(e).__name__, e))
        exp = self._expected_presented(o)
        Y = {g: numpy.array(v) for g, v in exp.items()}
        Y[f][idx] = val
        if idx2 is not None:
            Y[f][idx2] = val
        o.X0 = self.back(o.cls, Y, o.dim)
        if self.depth >= 1:
            self.ctx.probe("poke_inside_context")
        self.ctx.ev(i, "poke", n, o.cls, self.depth, idx)
        self.ctx.cov("poke", o.cls, self.depth)

    def op_badwrite(self, i, op):
        n = self.pick(op["k"], self._writable)
        if n is None:
            return
        o = self.pool[n]
        if self.access_expected_refusal(o):
            return
        self.ctx.fault("F2_refused_write")
        f = sorted(FIELDS[o.cls])[0]
        self.touch_probe(o)
        try:
            setattr(o.real, f, "not an array")
            raised = None
        except Exception as e:
            raised = e
        check(raised is not None, "bad-write-accepted", "op %d: a string was accepted as %s.%s" % (i, o.cls, f))
        self.ctx.ev(i, "badwrite", n, o.cls, self.depth, type(raised).__name__)
        self.ctx.cov("badwrite", o.cls, self.depth)

    def op_protect(self, i, op):
        n = self.pick(op["k"], lambda o: o.protected_at is None and not any(l["opk"] == self.pool.index(o) for l in self.levels))
        if n is None:
            return
        o = self.pool[n]
        L = self.level_of(o)
        if L is None:
            return
        o.real.protect_basis()
        o.protected_at = self.depth
        o.frozen = (L,)
        self.ctx.ev(i, "protect", n, self.depth, L)
        self.ctx.cov("protect", o.cls, self.depth, L)

    def op_unprotect(self, i, op):
        n = self.pick(op["k"], lambda o: o.protected_at is not None and o.protected_at == self.depth)
        if n is None:
            return
        o = self.pool[n]
        o.real.unprotect_basis()
        o.protected_at = None
        o.frozen = None
        self.ctx.ev(i, "unprotect", n, self.depth)
        self.ctx.cov("unprotect", o.cls, self.depth)

    def op_apply(self, i, op):
        s = self.pick(op["s"], lambda o: o.cls in ("SuperOp", "RelTensor", "LindbladOps", "EvSupOp") and o.protected_at is None)
        k = self.pick(op["k"], lambda o: o.cls in ("RDM", "Operator", "SelfAdjoint") and o.protected_at is None)
        if s is None or k is None:
            return
        so, ko = self.pool[s], self.pool[k]
        if self.access_expected_refusal(so) or self.access_expected_refusal(ko) or so.dim != ko.dim:
            return
        if self.cplx and so.cls == "LindbladOps" and not self.kf:
            return
        cp = bool(op["copy"])
        self.touch_probe(so)
        self.touch_probe(ko)
        rho0 = ko.X0["data"]
        if so.cls in ("SuperOp", "RelTensor"):
            exp0 = numpy.tensordot(so.X0["data"], rho0)
        elif so.cls == "EvSupOp":
            exp0 = numpy.tensordot(so.X0["data"][1], rho0)
        else:
            K, Lm, Ld = so.X0["Km"], so.X0["Lm"], so.X0["Ld"]
            exp0 = numpy.zeros_like(rho0)
            for m in range(K.shape[0]):
                Kd = K[m].T
                exp0 = exp0 + (K[m] @ rho0 @ Ld[m] + Lm[m] @ rho0 @ Kd - Kd @ Lm[m] @ rho0 - rho0 @ Ld[m] @ K[m])
        try:
            if so.cls == "EvSupOp":
                res = so.real.apply(self.ta.data[1], ko.real, copy=cp)
            else:
                res = so.real.apply(ko.real, copy=cp)
        except Exception as e:
            raise Violation("apply-raises", "op %d: %s.apply(%s, copy=%s) at depth %d: %s: %s"
                            % (i, so.cls, ko.cls, cp, self.depth, type(e).__name__, e))
        if self.depth >= 1:
            self.ctx.probe("apply_inside_context")
        if cp:
            check(res is not ko.real, "apply-copy-returned-operand", "op %d" % i)
            n = self.add_obj(ko.cls, res, {"data": exp0}, ko.dim)
        else:
            check(res is ko.real, "apply-nocopy-returned-new", "op %d" % i)
            ko.X0 = {"data": exp0}
            n = k
        o = self.pool[n]
        try:
            got = numpy.array(o.real.data)
        except Exception as e:
            raise Violation("read-raises", "op %d: reading the result of apply: %s: %s" % (i, type(e).__name__, e))
        exp = self.expected_fields(o, self.depth)["data"]
        check(close(got, exp, rtol=TOL, scale=max(1.0, float(numpy.max(numpy.abs(exp0))))), "action-of-tensor-basis-independent",
              lambda: "op %d: %s.apply at depth %d differs from the action computed outside any context: %s"
              % (i, so.cls, self.depth, maxdiff(got, exp)))
        self.ctx.ev(i, "apply", s, k, cp, self.depth, fingerprint(got))
        self.ctx.cov("apply", so.cls, ko.cls, cp, self.depth)

    def op_opapply(self, i, op):
        a = self.pick(op["s"], lambda o: o.cls in ("Operator", "SelfAdjoint", "RDM") and o.protected_at is None)
        b = self.pick(op["k"], lambda o: o.cls in ("Operator", "SelfAdjoint", "RDM") and o.protected_at is None)
        if a is None or b is None:
            return
        ao, bo = self.pool[a], self.pool[b]
        if self.access_expected_refusal(ao) or self.access_expected_refusal(bo) or ao.dim != bo.dim:
            return
        self.touch_probe(ao)
        self.touch_probe(bo)
        try:
            res = ao.real.apply(bo.real)
        except Exception as e:
            raise Violation("apply-raises", "op %d: Operator.apply at depth %d: %s: %s" % (i, self.depth, type(e).__name__, e))
        n = self.add_obj("Operator", res, {"data": ao.X0["data"] @ bo.X0["data"]}, ao.dim)
        self.ctx.ev(i, "opapply", a, b, n, self.depth)
        self.ctx.cov("opapply", ao.cls, bo.cls, self.depth)

    def op_libprop(self, i, op):
        """Propagated dynamics are the same inside a context as outside: the library's propagator is run at the
        current depth on pool objects; the reference is expm of the Liouvillian assembled from the ground truths."""
        import scipy.linalg
        qr = self.qr
        h = self.pick(op["k"], lambda o: o.cls == "Hamiltonian" and o.protected_at is None)
        r = self.pick(op["s"], lambda o: o.cls in ("RelTensor", "LindbladOps") and o.protected_at is None)
        st = self.pick(op.get("i", 0), lambda o: o.cls == "RDM" and o.protected_at is None)
        if h is None or st is None or self.cplx:
            return
        ho, so = self.pool[h], self.pool[st]
        ro = self.pool[r] if (r is not None and op.get("j", 0) % 3 != 0) else None
        for o in (ho, so, ro):
            if o is not None and (self.access_expected_refusal(o) or o.dim != ho.dim):
                return
        if any(l.get("complexS") for l in self.levels):
            return
        N = ho.dim
        H0 = numpy.real(ho.X0["data"])
        nt, dt = 3, 0.05        # three points, like every other evolution in the pool
        I = numpy.eye(N)
        L = -1j * (numpy.einsum("ac,bd->abcd", H0, I) - numpy.einsum("ac,db->abcd", I, H0))
        if ro is not None:
            if ro.cls == "RelTensor":
                R0 = ro.X0["data"]
            else:
                K, Lm, Ld = ro.X0["Km"], ro.X0["Lm"], ro.X0["Ld"]
                R0 = numpy.zeros((N,) * 4, dtype=complex)
                for m in range(K.shape[0]):
                    Kd = K[m].T
                    R0 += numpy.einsum("ac,db->abcd", K[m], Ld[m]) + numpy.einsum("ac,db->abcd", Lm[m], Kd)
                    R0 -= numpy.einsum("ac,db->abcd", Kd @ Lm[m], I)
                    R0 -= numpy.einsum("ac,db->abcd", I, Ld[m] @ K[m])
            L = L + R0
        Lm_ = L.reshape(N * N, N * N)
        for o in (ho, so, ro):
            if o is not None:
                self.touch_probe(o)
        try:
            axis = qr.TimeAxis(0.0, nt, dt)
            if ro is None:
                prop = qr.ReducedDensityMatrixPropagator(axis, ho.real)
            else:
                prop = qr.ReducedDensityMatrixPropagator(axis, ho.real, RTensor=ro.real)
            ev = prop.propagate(so.real)
            got = numpy.array(ev.data)
        except Exception as e:
            raise Violation("propagate-raises", "op %d: propagation at depth %d: %s: %s" % (i, self.depth, type(e).__name__, e))
        rho0 = so.X0["data"]
        T, Ti = self.TTi(self.depth, N)
        a = float(numpy.linalg.norm(Lm_, 2)) * dt
        rr = a ** 5 / 120.0 * numpy.exp(a)
        worst = 0.0
        for k in range(nt):
            ref = (scipy.linalg.expm(Lm_ * (k * dt)) @ rho0.reshape(-1)).reshape(N, N)
            exp = Ti @ ref @ T
            bound = 4.0 * N * k * rr * (1 + rr) ** k * max(1.0, float(numpy.max(numpy.abs(rho0)))) + 1e-10
            d = float(numpy.max(numpy.abs(got[k] - exp)))
            check(d <= bound, "propagated-dynamics-basis-independent",
                  lambda: "op %d: propagation requested at depth %d, time index %d: differs from the dynamics computed outside any "
                          "context by %g (truncation bound %g)" % (i, self.depth, k, d, bound))
        # the evolution is an object created inside: it joins the pool and must come back with everything else
        X0 = numpy.array([(scipy.linalg.expm(Lm_ * (k * dt)) @ rho0.reshape(-1)).reshape(N, N) for k in range(nt)])
        if self.depth >= 1:
            self.ctx.probe("propagation_inside_context")
        # the stored evolution differs from the exact one by the truncation error: keep what the library returned as ground truth
        n = self.add_obj("RDMEvolution", ev, {"data": tf("first3", got, Ti, T)}, N)
        self.ctx.ev(i, "libprop", h, r if ro is not None else None, st, self.depth, fingerprint(numpy.round(got, 6)))
        self.ctx.cov("libprop", None if ro is None else ro.cls, self.depth)

    SWEEP_SKIP = ("plot", "show", "save", "load", "fig", "movie", "print", "log", "copy", "wipe", "clean")

    def op_apisweep(self, i, op):
        """Outside of all contexts: a seeded selection of all public methods of freshly built real-life objects that can be
        called without arguments; whatever they do (many open basis contexts of their own, some protect the Hamiltonian), the
        basis bookkeeping must be exactly as before when they return or raise."""
        import contextlib
        import inspect
        import io as _io
        qr = self.qr
        if self.depth != 0:
            return
        ta = qr.TimeAxis(0.0, 50, 5.0)
        with qr.energy_units("1/cm"):
            mols = []
            for e in (12000.0, 12150.0):
                m = qr.Molecule([0.0, e])
                cf = qr.CorrelationFunction(ta, dict(ftype="OverdampedBrownian", reorg=30.0, cortime=80.0, T=300, matsubara=10))
                m.set_transition_environment((0, 1), cf)
                m.set_dipole(0, 1, [1.0, 0.0, 0.0])
                mols.append(m)
            agg = qr.Aggregate(mols)
            agg.set_resonance_coupling(0, 1, 90.0)
        agg.build()
        H = agg.get_Hamiltonian()
        objs = {"aggregate": agg, "hamiltonian": H, "dipole": agg.get_TransitionDipoleMoment(), "molecule": mols[0],
                "rdm": agg.get_DensityMatrix(condition_type="thermal", temperature=300)}
        pre = self.bookkeeping()
        cands = []
        for name in sorted(objs):
            for mn, meth in inspect.getmembers(objs[name], predicate=inspect.ismethod):
                if mn.startswith("_") or any(x in mn.lower() for x in self.SWEEP_SKIP):
                    continue
                try:
                    sig = inspect.signature(meth)
                except Exception:
                    continue
                if any(p.default is p.empty and p.kind in (p.POSITIONAL_ONLY, p.POSITIONAL_OR_KEYWORD) for p in sig.parameters.values()):
                    continue
                cands.append((name, mn, meth))
        for j in range(op.get("i", 0) + 3):
            name, mn, meth = cands[(op["k"] * 7 + 31 * j) % len(cands)]
            try:
                with contextlib.redirect_stdout(_io.StringIO()):
                    meth()
                outcome = "returned"
            except Exception as e:
                outcome = "raised " + type(e).__name__
            self.check_bookkeeping(pre, "op %d: after %s.%s() (%s)" % (i, name, mn, outcome))
            self.check_current_operator("op %d: after %s.%s()" % (i, name, mn))
            check(not H.is_basis_protected, "library-call-left-protection-on",
                  lambda: "op %d: after %s.%s() (%s) the aggregate's Hamiltonian is still basis protected" % (i, name, mn, outcome))
            for oname in ("hamiltonian", "dipole"):
                check(objs[oname].get_current_basis() == 0, "library-call-left-basis-label",
                      lambda: "op %d: after %s.%s() the %s carries basis id %r outside of all contexts"
                      % (i, name, mn, oname, objs[oname].get_current_basis()))
            self.ctx.probe("api_sweep_call")
            self.ctx.cov("apisweep", name, mn, outcome.split()[0])
        self.ctx.ev(i, "apisweep", op["k"])

    def op_evat(self, i, op):
        """ReducedDensityMatrixEvolution.at(t) hands out the state of one time as a new managed object."""
        n = self.pick(op["k"], lambda o: o.cls == "RDMEvolution" and o.protected_at is None)
        if n is None:
            return
        o = self.pool[n]
        if self.access_expected_refusal(o):
            return
        ti = op["s"] % 3
        x0 = o.X0["data"][ti]
        if float(numpy.max(numpy.abs(x0 - x0.conj().T))) > 1e-12:
            return          # at() builds a density matrix: only Hermitian slices are legal input
        self.touch_probe(o)
        try:
            tt = float(o.real.TimeAxis.data[ti])
            R = o.real.at(tt)
        except Exception as e:
            raise Violation("at-raises", "op %d: evolution.at at depth %d: %s: %s" % (i, self.depth, type(e).__name__, e))
        x = o.X0["data"][ti]
        if float(numpy.max(numpy.abs(x - x.conj().T))) > 1e-12:
            cls = "Operator"      # a general matrix: not eligible as a context operator later
        else:
            cls = "RDM"
        m = self.add_obj(cls, R, {"data": x.copy()}, o.dim)
        if self.depth >= 1:
            self.ctx.probe("evolution_at_inside_context")
        self.ctx.ev(i, "evat", n, m, ti, self.depth)
        self.ctx.cov("evat", self.depth)

    def op_evreinit(self, i, op):
        """An evolution container is given another initial condition (set_initial_condition is not a constructor: the
        object may already be known to the active context)."""
        n = self.pick(op["k"], lambda o: o.cls == "RDMEvolution" and o.protected_at is None)
        if n is None:
            return
        o = self.pool[n]
        r = self.pick(op["s"], lambda q: q.cls == "RDM" and q.dim == o.dim and q.protected_at is None)
        if r is None or self.access_expected_refusal(o) or self.access_expected_refusal(self.pool[r]):
            return
        R = self.pool[r]
        if op.get("i", 0) % 2 == 0:
            self.touch_probe(o)
            try:
                numpy.array(o.real.data)        # the container has been looked at here before it is re-used
            except Exception as e:
                raise Violation("read-raises", "op %d: %s: %s" % (i, type(e).__name__, e))
        try:
            o.real.set_initial_condition(R.real)
        except Exception as e:
            raise Violation("set-initial-condition-raises", "op %d: depth %d: %s: %s" % (i, self.depth, type(e).__name__, e))
        new = numpy.zeros_like(o.X0["data"])
        new[0] = R.X0["data"]
        o.X0 = {"data": new}
        if self.depth >= 1:
            self.ctx.probe("evolution_reinitialised_inside_context")
        self.ctx.ev(i, "evreinit", n, r, self.depth)
        self.ctx.cov("evreinit", self.depth)

    def op_alias(self, i, op):
        """A second managed object built on the array another one hands out (`ReducedDensityMatrix(data=rho.data)`, the
        idiom of the examples): two objects, one array, each registered with the contexts on its own."""
        n = self.pick(op["k"], lambda o: o.cls in ("RDM", "Operator", "SelfAdjoint") and o.protected_at is None)
        if n is None:
            return
        o = self.pool[n]
        if self.access_expected_refusal(o) or self.blocked(o):
            return
        self.touch_probe(o)
        qr = self.qr
        x0 = o.X0["data"]
        herm = float(numpy.max(numpy.abs(x0 - x0.conj().T))) <= 1e-12
        if o.cls in ("RDM", "SelfAdjoint") and not herm:
            return
        try:
            arr = o.real.data
            if o.cls == "RDM":
                R = qr.ReducedDensityMatrix(data=arr)
            elif o.cls == "SelfAdjoint":
                R = qr.qm.SelfAdjointOperator(data=arr)
            else:
                R = qr.qm.Operator(data=arr)
        except Exception as e:
            raise Violation("construction-raises", "op %d: second object on the array of #%d at depth %d: %s: %s" % (i, n, self.depth, type(e).__name__, e))
        m = self.add_obj(o.cls, R, {"data": numpy.array(o.X0["data"], dtype=complex)}, o.dim)
        o.shared = True
        self.pool[m].shared = True
        self.ctx.probe("two_objects_on_one_array")
        self.ctx.ev(i, "alias", n, m, self.depth)
        self.ctx.cov("alias", o.cls, self.depth)

    def op_tdmcomp(self, i, op):
        """TransitionDipoleMoment.get_component(n) hands out one Cartesian component as a new managed operator."""
        n = self.pick(op["k"], lambda o: o.cls == "TDM" and o.protected_at is None)
        if n is None:
            return
        o = self.pool[n]
        if self.access_expected_refusal(o):
            return
        c = op["s"] % 3
        x0 = o.X0["data"][:, :, c]
        if float(numpy.max(numpy.abs(x0 - x0.conj().T))) > 1e-12:
            return          # get_component builds a self-adjoint operator: only symmetric components are legal input
        self.touch_probe(o)
        try:
            R = o.real.get_component(c)
        except Exception as e:
            raise Violation("get-component-raises", "op %d: get_component at depth %d: %s: %s" % (i, self.depth, type(e).__name__, e))
        m = self.add_obj("SelfAdjoint", R, {"data": numpy.array(o.X0["data"][:, :, c], dtype=complex)}, o.dim)
        if self.depth >= 1:
            self.ctx.probe("dipole_component_inside_context")
        self.ctx.ev(i, "tdmcomp", n, m, c, self.depth)
        self.ctx.cov("tdmcomp", self.depth)

    def op_badcreate(self, i, op):
        """A refused construction (non-square data) inside a context is a fault like any other refused operation."""
        qr = self.qr
        self.ctx.fault("F2_refused_write")
        how = op["s"] % 5
        try:
            if how == 3:
                d = self.levels[-1]["dim"] if self.levels else self.N
                qr.qm.SuperOperator(data=numpy.zeros((d, d + 1, d, d)))       # not "square": refused after the data were taken
            elif how == 4:
                qr.qm.SuperOperator(data=numpy.zeros((2, 2, 2)))
            elif how == 0:
                qr.qm.Operator(data=numpy.zeros((2, 3)))
            elif how == 1:
                d = self.levels[-1]["dim"] if self.levels else self.N
                bad = numpy.zeros((d, d))
                bad[0, 1] = 1.0
                bad[1, 0] = 2.0       # right dimension, not self-adjoint: refused after the operator part was built
                qr.qm.SelfAdjointOperator(data=bad)
            else:
                qr.ReducedDensityMatrix(data=numpy.zeros((3, 2, 2)))
            raised = False
        except Exception:
            raised = True
        check(raised, "bad-construction-accepted", "op %d: malformed operator data were accepted" % i)
        if self.depth >= 1:
            self.ctx.probe("refused_construction_inside_context")
        self.ctx.ev(i, "badcreate", how, self.depth)
        self.ctx.cov("badcreate", how, self.depth)

    def op_esoat(self, i, op):
        """EvolutionSuperOperator.at(t) hands out the superoperator of one time as a new managed object."""
        n = self.pick(op["k"], lambda o: o.cls == "EvSupOp" and o.protected_at is None)
        if n is None:
            return
        o = self.pool[n]
        if self.access_expected_refusal(o):
            return
        self.touch_probe(o)
        ti = 1 + op["s"] % 2
        try:
            S = o.real.at(float(self.ta.data[ti]))
        except Exception as e:
            raise Violation("at-raises", "op %d: EvolutionSuperOperator.at at depth %d: %s: %s" % (i, self.depth, type(e).__name__, e))
        m = self.add_obj("SuperOp", S, {"data": o.X0["data"][ti].copy()}, o.dim)
        if self.depth >= 1:
            self.ctx.probe("eso_at_inside_context")
        self.ctx.ev(i, "esoat", n, m, ti, self.depth)
        self.ctx.cov("esoat", self.depth)

    def op_opadd(self, i, op):
        a = self.pick(op["s"], lambda o: o.cls in ("Operator", "SelfAdjoint", "RDM") and o.protected_at is None and not getattr(o, "shared", False))
        b = self.pick(op["k"], lambda o: o.cls in ("Operator", "SelfAdjoint", "RDM") and o.protected_at is None)
        if a is None or b is None or a == b:
            return
        ao, bo = self.pool[a], self.pool[b]
        if self.access_expected_refusal(ao) or self.access_expected_refusal(bo) or ao.dim != bo.dim:
            return
        if ao.cls in ("SelfAdjoint", "RDM") and bo.cls == "Operator":
            return
        ra, rb = self.raw(ao, "data"), self.raw(bo, "data")
        if ra is None or rb is None or self.cplx:
            return
        if not numpy.iscomplexobj(ra) and (numpy.iscomplexobj(rb) or any(l.get("typedComplexS") for l in self.levels)):
            # numpy refuses to add a complex-typed array into a real-typed one in place; a transformation matrix that is
            # complex-typed (even with zero imaginary part) makes every lazily transformed operand complex-typed.
            # This is array typing, not a basis matter.
            return
        self.touch_probe(ao)
        self.touch_probe(bo)
        try:
            res = ao.real + bo.real
        except Exception as e:
            raise Violation("apply-raises", "op %d: Operator.__add__ at depth %d: %s: %s" % (i, self.depth, type(e).__name__, e))
        check(res is ao.real, "operator-add-returns-self", "op %d" % i)
        ao.X0 = {"data": ao.X0["data"] + bo.X0["data"]}
        self.ctx.ev(i, "opadd", a, b, self.depth)
        self.ctx.cov("opadd", ao.cls, bo.cls, self.depth)

    def op_copy(self, i, op):
        n = self.pick(op["k"], lambda o: o.protected_at is None)
        if n is None:
            return
        o = self.pool[n]
        if self.access_expected_refusal(o):
            return
        if not self.kf and self.depth >= 1 and False:
            return
        how = op["how"]
        try:
            if how == "scopy" and hasattr(o.real, "scopy"):
                new = o.real.scopy()
            else:
                how = "deepcopy"
                new = _copy.deepcopy(o.real)
        except Exception as e:
            raise Violation("copy-raises", "op %d: %s of %s at depth %d: %s: %s" % (i, how, o.cls, self.depth, type(e).__name__, e))
        if self.depth >= 1:
            self.ctx.probe("deepcopy_inside_context")
            self.accessed_inside += 1
        m = self.add_obj(o.cls, new, {f: v.copy() for f, v in o.X0.items()}, o.dim)
        self.ctx.ev(i, "copy", how, n, m, self.depth)
        self.ctx.cov("copy", how, o.cls, self.depth, self.level_of(o))

    def op_secularize(self, i, op):
        n = self.pick(op["k"], lambda o: o.cls == "RelTensor" and o.protected_at is None)
        if n is None:
            return
        o = self.pool[n]
        if self.access_expected_refusal(o):
            return
        self.touch_probe(o)
        try:
            o.real.secularize()
        except Exception as e:
            raise Violation("secularize-raises", "op %d: %s: %s" % (i, type(e).__name__, e))
        Y = self.expected_fields(o, self.depth)
        R = numpy.array(Y["data"])
        N = R.shape[0]
        for a in range(N):
            for b in range(N):
                for c in range(N):
                    for d in range(N):
                        if not ((a == b and c == d) or (a == c and b == d)):
                            R[a, b, c, d] = 0
        o.X0 = self.back(o.cls, {"data": R}, o.dim)
        if self.depth >= 1:
            self.ctx.probe("secularize_inside_context")
        self.ctx.ev(i, "secularize", n, self.depth)
        self.ctx.cov("secularize", self.depth)

    def op_convert(self, i, op):
        n = self.pick(op["k"], lambda o: o.cls == "LindbladOps" and o.protected_at is None)
        if n is None:
            return
        o = self.pool[n]
        if self.access_expected_refusal(o) or (self.cplx and not self.kf):
            return
        self.touch_probe(o)
        try:
            o.real.convert_2_tensor()
        except Exception as e:
            raise Violation("convert-raises", "op %d: convert_2_tensor at depth %d: %s: %s" % (i, self.depth, type(e).__name__, e))
        K, Lm, Ld = o.X0["Km"], o.X0["Lm"], o.X0["Ld"]
        N = K.shape[1]
        R = numpy.zeros((N, N, N, N), dtype=complex)
        I = numpy.eye(N)
        for m in range(K.shape[0]):
            Kd = K[m].T
            R += numpy.einsum("ac,db->abcd", K[m], Ld[m]) + numpy.einsum("ac,db->abcd", Lm[m], Kd)
            R -= numpy.einsum("ac,db->abcd", Kd @ Lm[m], I)
            R -= numpy.einsum("ac,db->abcd", I, Ld[m] @ K[m])
        o.cls = "RelTensor"
        o.X0 = {"data": R}
        if self.depth >= 1:
            self.ctx.probe("convert_inside_context")
        try:
            got = numpy.array(o.real.data)
        except Exception as e:
            raise Violation("read-raises", "op %d: reading converted tensor: %s: %s" % (i, type(e).__name__, e))
        exp = self.expected_fields(o, self.depth)["data"]
        check(close(got, exp, rtol=TOL, scale=self.scale(o)), "converted-tensor-basis-independent",
              lambda: "op %d: convert_2_tensor at depth %d: %s" % (i, self.depth, maxdiff(got, exp)))
        self.ctx.ev(i, "convert", n, self.depth)
        self.ctx.cov("convert", self.depth)
