# -*- coding: utf-8 -*-
"""C19 -- two-dimensional response storage conserves what was added.

Real code: TwoDResponse / TwoDSpectrumBase storage (_add_data, set_resolution,
resolution-dependent getter/setter, get_all_data), TwoDResponseContainer
pass-through.  Reference model: an exact ledger of accepted additions
(integer-valued complex payloads, so sums are exact).

Operation classes (what the model demands of the outcome):
  MUST_ACCEPT  same-level addition with a valid type (and a fresh tag at
               pathway level); documented reductions of the resolution
  MUST_REFUSE  finer-than-storage addition, unknown type for the level,
               raising the resolution, processes->signals, unknown resolution
  EITHER       everything else (coarser-than-storage additions, duplicate or
               misplaced tags, non-array payloads): accepted => must conserve,
               refused => nothing may change
"""
import numpy

from ..core import Violation, check, fingerprint

PTYPES = ["R1g", "R2g", "R3g", "R4g", "R1fs", "R2fs", "R3fs", "R4fs"]
PROCESSES = {"GSB": ["R1g", "R2g"], "SE": ["R3g", "R4g"], "ESA": ["R1fs", "R2fs"], "DC": ["R3fs", "R4fs"]}
REPH, NONR, TOTL, SDC = ("rephasing_2D_signal", "nonrephasing_2D_signal", "total_2D_signal",
                         "double_coherence_signal")
SIGNALS = {REPH: ["R2g", "R3g", "R1fs"], NONR: ["R1g", "R4g", "R2fs"], SDC: ["R3fs", "R4fs"]}
LEVELS = ["off", "signals", "processes", "types", "pathways"]
DTYPES = {"pathways": PTYPES, "types": PTYPES, "processes": list(PROCESSES), "signals": list(SIGNALS), "off": [TOTL]}
EDGES = {4: {3, 2, 1, 0}, 3: {2, 1, 0}, 2: {0}, 1: {0}, 0: set()}
TAGS = ["a", "b", "c", 1, 2, "p5", 0, ""]      # 0 and "" are legal tags that are falsy


def proc_of(t):
    return [p for p, ts in PROCESSES.items() if t in ts][0]


def sig_of(t):
    return [s for s, ts in SIGNALS.items() if t in ts][0]


FAULT_KINDS = ["finer_add", "unknown_dtype", "tag_at_coarse_level", "missing_tag", "duplicate_tag",
               "raise_resolution", "processes_to_signals", "unknown_resolution", "non_array_payload",
               "coarser_add"]


class World:
    name = "twodledger"
    prop_id = "C19"
    level = "fault_enumeration"
    quick_enum_bases = 64        # quick tier: all single-fault placements of the first 64 sampled programs (thorough: of all)
    quick_runs = 8000
    thorough_budget_s = 600
    run_timeout = 60.0
    probe_min_runs = 500
    required_probes = ["coarser_add_accepted_or_refused", "convert_4_3", "convert_3_2", "convert_3_1", "convert_2_0",
                       "convert_1_0", "convert_multi_step", "add_after_conversion", "first_add_sets_resolution",
                       "container_passthrough", "type_level_add_into_pathways", "spectrum_object_view",
                       "derived_spectrum_of_a_stored_block_modified", "first_data_assigned_through_the_data_property",
                       "two_responses_filled_through_the_data_property", "container_filled_out_of_axis_order"]
    required_faults = list(FAULT_KINDS)
    components = {
        "real": ["TwoDResponse / TwoDSpectrumBase: _add_data, set_resolution, _convert_resolution, d__data getter/setter "
                 "under set_data_flag, get_all_data, get_all_tags", "TwoDResponseContainer.set_spectrum/get_response/set_data_flag"],
        "stub": [],
        "reference_model": ["ledger of accepted additions with exact integer-valued complex payloads"],
    }
    assumptions = [
        "an operation the storage accepts is admissible and must conserve; an operation it refuses must change no view, "
        "not the storage resolution and not get_all_data()",
        "a refused FIRST addition on a still empty object may fix the storage resolution (no stored data exists yet)",
        "payloads have the shape of the axes; callers do not mutate arrays after handing them over",
    ]
    rule = ("program = seeded list of additions at every level (explicit or implicit resolution), resolution changes along "
            "admissible and inadmissible edges, data assigned through the data property, derived spectra edited by the caller, "
            "containers (pass-through and over waiting times, filled out of order) and inadmissible operations; after every op every view the object serves "
            "(total, REPH, NONR, DC, 4 processes, 8 types, every [type, tag]) is compared with the ledger; thorough tier "
            "re-runs each sampled program with one inadmissible operation inserted at every position; "
            "non-trivial = >=2 accepted additions and >=1 resolution change or refused operation; distinct = distinct "
            "event-log digests among non-trivial runs")

    # ------------------------------------------------------------------ gen
    def _gen_add(self, rng, level_hint=None):
        lvl = level_hint if level_hint is not None else rng.choice(LEVELS + ["pathways", "types", None, None])
        return {"op": "add", "lvl": lvl, "d": rng.randrange(8), "tag": rng.randrange(len(TAGS)),
                "pay": rng.randrange(1 << 30)}

    def _gen_fault(self, rng, kind):
        return {"op": "fault", "kind": kind, "d": rng.randrange(8), "tag": rng.randrange(len(TAGS)),
                "pay": rng.randrange(1 << 30), "r": rng.randrange(5)}

    def gen(self, rng, tier):
        nx, ny = rng.randint(2, 5), rng.randint(2, 5)
        n = rng.randint(2, 25)
        ops = []
        # swarm: which start level dominates
        start = rng.choice(LEVELS + ["pathways", "pathways", "types"])
        faultrate = rng.choice([0.0, 0.1, 0.3])
        for i in range(n):
            r = rng.random()
            if r < faultrate:
                ops.append(self._gen_fault(rng, rng.choice(FAULT_KINDS)))
            elif r < faultrate + 0.15:
                ops.append({"op": "setres", "r": rng.randrange(5)})
            elif r < faultrate + 0.2:
                ops.append({"op": "container"})
            elif r < faultrate + 0.27:
                ops.append({"op": "derive", "v": rng.randrange(8), "how": rng.randrange(4)})
            elif r < faultrate + 0.32:
                ops.append({"op": "setdata", "d": rng.randrange(8), "tag": rng.randrange(len(TAGS)), "pay": rng.randrange(1 << 30)})
            else:
                if i == 0 and rng.random() < 0.15:
                    ops.append({"op": "setdata", "d": rng.randrange(8), "tag": rng.randrange(len(TAGS)), "pay": rng.randrange(1 << 30)})
                elif i == 0 or rng.random() < 0.5:
                    ops.append(self._gen_add(rng, start if rng.random() < 0.7 else None))
                else:
                    ops.append(self._gen_add(rng))
        return {"nx": nx, "ny": ny, "pre_setres": rng.choice([None, None, None, 3, 1, 0]), "ops": ops}

    def fault_variants(self, base, rng):
        ops = base["ops"]
        for pos in range(len(ops) + 1):
            kind = FAULT_KINDS[(pos + rng.randrange(len(FAULT_KINDS))) % len(FAULT_KINDS)]
            new = list(ops)
            new.insert(pos, self._gen_fault(rng, kind))
            yield dict(base, ops=new)

    # ------------------------------------------------------------------ run
    def run(self, program, ctx):
        import quantarhei as qr
        from quantarhei.spectroscopy.twod2 import TwoDResponse
        from quantarhei.spectroscopy.twodcontainer import TwoDResponseContainer

        nx, ny = program["nx"], program["ny"]
        resp = TwoDResponse()
        resp.set_axis_1(qr.FrequencyAxis(0.0, nx, 1.0))
        resp.set_axis_3(qr.FrequencyAxis(0.0, ny, 1.0))
        ctx.ev("cfg", nx, ny, program.get("pre_setres"))

        st = {"S": "pathways", "init": False, "ledger": []}
        accepted = [0]
        events = [0]

        held = []   # (array handed to the library, its values at that time): the caller keeps its arrays and may hand one over again

        def payload(seed):
            if seed % 4 == 0 and held:
                # the caller adds an array it has added before (the same object, untouched by the caller)
                ctx.probe("same_array_handed_over_again")
                return held[-1][0]
            g = numpy.random.Generator(numpy.random.PCG64(seed))
            arr = (g.integers(-9, 10, size=(nx, ny)) + 1j * g.integers(-9, 10, size=(nx, ny))).astype(numpy.complex128)
            held.append((arr, arr.copy()))
            return arr

        def check_held(what):
            for arr, pristine in held:
                check(numpy.array_equal(arr, pristine), "caller-array-unchanged",
                      lambda: "after %s: an array the caller added earlier was changed by the library" % what)

        # -------------------------------------------------- model: views
        def served_views():
            S = st["S"]
            views = [("total",)]
            if S in ("pathways", "types", "signals"):
                views += [("sig", g) for g in SIGNALS]
            if S in ("pathways", "types", "processes"):
                views += [("proc", p) for p in PROCESSES]
            if S in ("pathways", "types"):
                views += [("type", t) for t in PTYPES]
            if S == "pathways":
                seen = []
                for (lvl, dt, tag, arr, at_S) in st["ledger"]:
                    if lvl == "pathways" and (dt, tag) not in seen:
                        seen.append((dt, tag))
                views += [("tag", t, tg) for (t, tg) in seen]
            return views

        def belongs(entry, view):
            lvl, dt, tag, arr, at_S = entry
            k = view[0]
            if k == "total":
                return True
            if lvl in ("pathways", "types"):
                if k == "type":
                    return view[1] == dt
                if k == "proc":
                    return view[1] == proc_of(dt)
                if k == "sig":
                    return view[1] == sig_of(dt)
                if k == "tag":
                    if lvl == "pathways":
                        return view[1] == dt and view[2] == tag
                    return view[1] == dt and view[2] is None and at_S == "pathways"
            if lvl == "processes":
                return k == "proc" and view[1] == dt
            if lvl == "signals":
                return k == "sig" and view[1] == dt
            return False

        def expected(view):
            tot, n = numpy.zeros((nx, ny), dtype=numpy.complex128), 0
            for e in st["ledger"]:
                if belongs(e, view):
                    tot = tot + e[3]
                    n += 1
            return tot, n

        def flag_of(view):
            k = view[0]
            if k == "total":
                return TOTL
            if k == "tag":
                return [view[1], view[2]]
            return view[1]

        def read_view(view):
            try:
                resp.set_data_flag(flag_of(view))
                d = resp.d__data
            except Exception as e:
                return ("raises", type(e).__name__)
            if d is None:
                return ("none",)
            try:
                return ("array", numpy.array(d, dtype=numpy.complex128, copy=True))
            except Exception as e:
                return ("weird", repr(type(d)))

        def all_data():
            try:
                dd = resp.get_all_data()
            except Exception as e:
                return ("raises", type(e).__name__)
            out = {}
            for k, v in dd.items():
                out[str(k)] = None if v is None else numpy.array(v, dtype=numpy.complex128, copy=True)
            return ("dict", out)

        def snapshot():
            return {"S": resp.storage_resolution,
                    "views": {repr(v): read_view(v) for v in served_views()},
                    "all": all_data()}

        def emptyish(a):
            return a[0] in ("raises", "none") or (a[0] == "array" and not numpy.any(a[1])) \
                or (a[0] == "dict" and all(v is None or not numpy.any(v) for v in a[1].values()))

        def same(a, b):
            if emptyish(a) and emptyish(b):
                return True
            if a[0] != b[0]:
                return False
            if a[0] == "array":
                return a[1].shape == b[1].shape and numpy.array_equal(a[1], b[1])
            if a[0] == "dict":
                if sorted(a[1]) != sorted(b[1]):
                    return False
                for k in a[1]:
                    x, y = a[1][k], b[1][k]
                    if (x is None) != (y is None):
                        return False
                    if x is not None and not (x.shape == y.shape and numpy.array_equal(x, y)):
                        return False
                return True
            return True

        def check_unchanged(before, what):
            after = snapshot()
            check(after["S"] == before["S"], "refusal-changed-resolution",
                  lambda: "%s was refused but storage resolution went %s -> %s" % (what, before["S"], after["S"]))
            for k in before["views"]:
                check(k in after["views"] and same(before["views"][k], after["views"][k]), "refusal-changed-view",
                      lambda: "%s was refused but view %s changed" % (what, k))
            check(same(before["all"], after["all"]), "refusal-changed-stored-data",
                  lambda: "%s was refused but get_all_data() changed" % what)

        order = [0]

        def ordered_views():
            """The views are read in a different order every time (the object keeps a 'current flag' between reads):
            natural order, reversed, and pathway views immediately followed by the view of their type."""
            vs = served_views()
            order[0] += 1
            mode = order[0] % 3
            if mode == 1:
                return list(reversed(vs))
            if mode == 2:
                tags = [v for v in vs if v[0] == "tag"]
                rest = [v for v in vs if v[0] not in ("tag", "type")]
                out = []
                for t in PTYPES:
                    out += [v for v in tags if v[1] == t]
                    out += [v for v in vs if v[0] == "type" and v[1] == t]
                return out + rest
            return vs

        def check_views(what):
            check_held(what)
            check(resp.storage_resolution == st["S"], "storage-resolution",
                  lambda: "after %s: storage_resolution %r, model %r" % (what, resp.storage_resolution, st["S"]))
            for v in ordered_views():
                exp, n = expected(v)
                got = read_view(v)
                if n == 0:
                    ok = got[0] in ("raises", "none") or (got[0] == "array" and not numpy.any(got[1]))
                    check(ok, "empty-view-not-empty", lambda: "after %s: view %r holds data nobody added" % (what, v))
                else:
                    check(got[0] == "array" and got[1].shape == exp.shape and numpy.array_equal(got[1], exp),
                          "view-equals-ledger-sum",
                          lambda: "after %s: view %r (storage %s) = %s, ledger sum of %d additions = %s"
                          % (what, v, st["S"], _short(got), n, _short(("array", exp))))
            # the same views handed out as TwoDSpectrum objects
            for v in served_views():
                if v[0] not in ("total", "sig"):
                    continue
                exp, n = expected(v)
                if n == 0:
                    continue
                try:
                    sp = resp.get_TwoDSpectrum(dtype=flag_of(v))
                    got = numpy.array(sp.data, dtype=numpy.complex128)
                except Exception as e:
                    raise Violation("spectrum-view-raises", "after %s: get_TwoDSpectrum(%r): %s: %s" % (what, flag_of(v), type(e).__name__, e))
                check(got.shape == exp.shape and numpy.array_equal(got, exp), "spectrum-view-equals-ledger-sum",
                      lambda: "after %s: get_TwoDSpectrum(%r) differs from the ledger sum" % (what, flag_of(v)))
                ctx.probe("spectrum_object_view")
            if st["ledger"]:
                ad = all_data()
                check(ad[0] == "dict", "get-all-data", lambda: "after %s: get_all_data() %r" % (what, ad))
                tot = numpy.zeros((nx, ny), dtype=numpy.complex128)
                for k, v in ad[1].items():
                    if v is not None and v.shape == (nx, ny):
                        tot = tot + v
                    elif v is not None and numpy.any(v):
                        raise Violation("get-all-data", "piece %s has shape %r" % (k, v.shape))
                exp, n = expected(("total",))
                check(numpy.array_equal(tot, exp), "all-data-sum-equals-total",
                      lambda: "after %s: sum of get_all_data() differs from the sum of all additions" % what)

        def do_add(idx, lvl, dt, tag, data, cls, what):
            """cls in MUST_ACCEPT / MUST_REFUSE / EITHER"""
            before = snapshot()
            was_init = st["init"]
            S_before = st["S"]
            try:
                if lvl is None:
                    resp._add_data(data, dtype=dt, tag=tag)
                else:
                    resp._add_data(data, resolution=lvl, dtype=dt, tag=tag)
                raised = None
            except Exception as e:
                raised = e
            # the first _add_data call initialises the storage and (with an explicit
            # resolution) fixes the storage resolution, whatever its outcome
            if not was_init:
                st["init"] = True
                if lvl is not None:
                    if st["S"] != lvl:
                        ctx.probe("first_add_sets_resolution")
                    st["S"] = lvl
                    before["S"] = lvl
            eff = lvl if lvl is not None else st["S"]
            if raised is not None:
                check(cls != "MUST_ACCEPT", "admissible-op-refused",
                      lambda: "%s raised %s: %s" % (what, type(raised).__name__, raised))
                if was_init:
                    check_unchanged(before, what)
                else:
                    check_views(what)
                ctx.ev(idx, "add", eff, dt, str(tag), "refused", type(raised).__name__)
                ctx.cov("add", S_before, eff, cls, "refused")
                return False
            check(cls != "MUST_REFUSE", "inadmissible-op-accepted", lambda: "%s was accepted" % what)
            arr = numpy.array(data, dtype=numpy.complex128)
            st["ledger"].append((eff, dt, tag if eff == "pathways" else None, arr, st["S"]))
            accepted[0] += 1
            if LEVELS.index(eff) < LEVELS.index(st["S"]):
                if eff == "types" and st["S"] == "pathways":
                    ctx.probe("type_level_add_into_pathways")
            check_views(what)
            ctx.ev(idx, "add", eff, dt, str(tag), "accepted", fingerprint(arr))
            ctx.cov("add", S_before, eff, cls, "accepted", was_init)
            return True

        def do_setres(idx, name, what):
            before = snapshot()
            old = LEVELS.index(st["S"]) if st["S"] in LEVELS else None
            if name not in LEVELS:
                cls = "MUST_REFUSE"
                new = None
            else:
                new = LEVELS.index(name)
                if new == old:
                    cls = "MUST_ACCEPT"
                elif new in EDGES[old]:
                    cls = "MUST_ACCEPT"
                else:
                    cls = "MUST_REFUSE"
            try:
                resp.set_resolution(name)
                raised = None
            except Exception as e:
                raised = e
            if raised is not None:
                check(cls != "MUST_ACCEPT", "admissible-op-refused",
                      lambda: "%s raised %s: %s" % (what, type(raised).__name__, raised))
                check_unchanged(before, what)
                events[0] += 1
                ctx.ev(idx, "setres", name, "refused")
                ctx.cov("setres", st["S"], name, "refused", bool(st["ledger"]))
                return
            check(cls != "MUST_REFUSE", "inadmissible-op-accepted", lambda: "%s was accepted" % what)
            if new != old:
                ctx.probe("convert_%d_%d" % (old, new)) if (old, new) in ((4, 3), (3, 2), (3, 1), (2, 0), (1, 0)) \
                    else ctx.probe("convert_multi_step")
                events[0] += 1
            ctx.cov("setres", st["S"], name, "accepted", bool(st["ledger"]))
            st["S"] = name
            check_views(what)
            ctx.ev(idx, "setres", name, "accepted")

        if program.get("pre_setres") is not None:
            do_setres(-1, LEVELS[program["pre_setres"] % 5], "initial set_resolution")

        converted = False
        for idx, op in enumerate(program["ops"]):
            ctx.step()
            kind = op["op"]
            if kind == "add":
                lvl = op["lvl"]
                eff = lvl if lvl is not None else st["S"]
                if lvl is not None and not st["init"]:
                    eff_S = lvl
                else:
                    eff_S = st["S"]
                dts = DTYPES[eff]
                dt = dts[op["d"] % len(dts)]
                tag = TAGS[op["tag"] % len(TAGS)] if eff == "pathways" else None
                li, si = LEVELS.index(eff), LEVELS.index(eff_S)
                if li > si:
                    cls = "MUST_REFUSE"
                    ctx.fault("finer_add")
                elif li < si:
                    cls = "EITHER"
                    ctx.probe("coarser_add_accepted_or_refused")
                    ctx.fault("coarser_add")
                else:
                    dup = eff == "pathways" and any(e[0] == "pathways" and e[1] == dt and e[2] == tag for e in st["ledger"])
                    cls = "EITHER" if dup else "MUST_ACCEPT"
                    if dup:
                        ctx.fault("duplicate_tag")
                if st["ledger"] and events[0] and cls == "MUST_ACCEPT":
                    ctx.probe("add_after_conversion")
                do_add(idx, lvl, dt, tag, payload(op["pay"]), cls,
                       "op %d _add_data(resolution=%r, dtype=%r, tag=%r) at storage %s" % (idx, lvl, dt, tag, eff_S))
            elif kind == "derive":
                # a spectrum object derived from the response belongs to the caller, who normalises, scales or edits it
                vs = [v for v in served_views() if v[0] in ("total", "sig") and expected(v)[1] > 0]
                if not vs:
                    ctx.ev(idx, "derive", "n/a")
                    continue
                v = vs[op["v"] % len(vs)]
                how = ["normalize2", "devide_by", "inplace_scale", "element_write"][op["how"] % 4]
                try:
                    sp = resp.get_TwoDSpectrum(dtype=flag_of(v))
                    if how == "normalize2":
                        sp.normalize2()
                    elif how == "devide_by":
                        sp.devide_by(2.0)
                    elif how == "inplace_scale":
                        sp.data *= 3.0
                    else:
                        sp.data[0, 0] = 99.0
                except Exception as e:
                    ctx.ev(idx, "derive", how, "raised", type(e).__name__)
                else:
                    ctx.ev(idx, "derive", how, repr(v))
                if LEVELS.index(st["S"]) == (0 if v[0] == "total" else 1):
                    ctx.probe("derived_spectrum_of_a_stored_block_modified")
                ctx.probe("derived_spectrum_modified")
                check_views("op %d caller's %s on the spectrum derived for %r" % (idx, how, v))
                ctx.cov("derive", how, st["S"], v[0])
            elif kind == "setdata":
                # the documented other way of filling a view: the `data` property under a data flag (what load_data does)
                S = st["S"]
                if not st["init"] and not (program.get("pre_setres") is not None and S == "off"):
                    # an empty response takes data through the property as a total spectrum only, and only that case
                    # (resolution explicitly 'off') is modelled
                    ctx.ev(idx, "setdata", "n/a-fresh")
                    continue
                dts = DTYPES[S]
                dt = dts[op["d"] % len(dts)]
                tag = TAGS[op["tag"] % len(TAGS)] if S == "pathways" else None
                if S == "pathways":
                    view = ("tag", dt, tag)
                elif S == "types":
                    view = ("type", dt)
                elif S == "processes":
                    view = ("proc", dt)
                elif S == "signals":
                    view = ("sig", dt)
                else:
                    view = ("total",)
                if expected(view)[1] > 0 or (S == "pathways" and expected(("type", dt))[1] > 0 and not any(
                        e[0] == "pathways" and e[1] == dt for e in st["ledger"])):
                    ctx.ev(idx, "setdata", "n/a")
                    continue                      # only empty views are filled this way (a set on a filled view replaces)
                X = payload(op["pay"])
                before = snapshot()
                was_init = st["init"]
                try:
                    resp.set_data_flag(flag_of(view))
                    resp.set_data_writable()
                    try:
                        resp.data = X.copy()
                    finally:
                        resp.set_data_protected()
                    raised = None
                except Exception as e:
                    raised = e
                if raised is not None:
                    # a refusal is tolerated, a change is not
                    if was_init:
                        check_unchanged(before, "op %d refused data assignment under flag %r" % (idx, flag_of(view)))
                    ctx.ev(idx, "setdata", repr(view), "refused", type(raised).__name__)
                    continue
                st["init"] = True
                st["ledger"].append((S, dt, tag if S == "pathways" else None, X, S))
                accepted[0] += 1
                if not was_init:
                    ctx.probe("first_data_assigned_through_the_data_property")
                    # another response receives ITS first data the same way: the two objects share nothing
                    other = TwoDResponse()
                    other.set_axis_1(qr.FrequencyAxis(0.0, nx, 1.0))
                    other.set_axis_3(qr.FrequencyAxis(0.0, ny, 1.0))
                    Y = payload(op["pay"] + 1)
                    try:
                        other.set_resolution("off")
                        other.set_data_flag(TOTL)
                        other.set_data_writable()
                        other.data = Y.copy()
                        other.set_data_protected()
                        other.set_data_flag(TOTL)
                        oy = numpy.array(other.d__data, dtype=numpy.complex128)
                    except Exception as e:
                        raise Violation("second-response-raises", "op %d: %s: %s" % (idx, type(e).__name__, e))
                    check(numpy.array_equal(oy, Y), "view-equals-ledger-sum", "op %d: a second response does not hold the data assigned to it" % idx)
                    ctx.probe("two_responses_filled_through_the_data_property")
                check_views("op %d data assigned under flag %r at storage %s" % (idx, flag_of(view), S))
                ctx.ev(idx, "setdata", repr(view), "accepted", fingerprint(X))
                ctx.cov("setdata", S, was_init)
            elif kind == "setres":
                do_setres(idx, LEVELS[op["r"] % 5], "op %d set_resolution(%r) at storage %s" % (idx, LEVELS[op["r"] % 5], st["S"]))
            elif kind == "container":
                # pass-through: the same object through a container must serve the same views
                cont = TwoDResponseContainer()
                cont.use_indexing_type("integer")
                try:
                    cont.set_spectrum(resp, tag=0)
                    back = cont.get_response(0)
                except Exception as e:
                    raise Violation("container-passthrough", "%s: %s" % (type(e).__name__, e))
                check(back is resp, "container-passthrough", "container returned a different object")
                if st["ledger"]:
                    for v in served_views():
                        exp, n = expected(v)
                        if n == 0:
                            continue
                        try:
                            cont.set_data_flag(flag_of(v))
                            d = cont.get_response(0).d__data
                        except Exception as e:
                            raise Violation("container-view", "view %r through container: %s: %s" % (v, type(e).__name__, e))
                        check(d is not None and numpy.array_equal(numpy.asarray(d), exp), "container-view",
                              lambda: "view %r through the container differs from the ledger sum" % (v,))
                ctx.probe("container_passthrough")
                ctx.ev(idx, "container")
                ctx.cov("container", st["S"], bool(st["ledger"]))
                # a container over waiting times, filled in an order that is not the order of its axis: what is read back for
                # a waiting time (directly and after conversion to a container of spectra) is what was added for THAT time
                t2axis = qr.TimeAxis(0.0, 3, 10.0)
                c2 = TwoDResponseContainer(t2axis=t2axis)
                order = [[20.0, 0.0, 10.0], [10.0, 20.0, 0.0], [0.0, 10.0, 20.0]][idx % 3]
                exp2 = {}
                try:
                    for t2 in order:
                        r = TwoDResponse()
                        r.set_axis_1(qr.FrequencyAxis(0.0, nx, 1.0))
                        r.set_axis_3(qr.FrequencyAxis(0.0, ny, 1.0))
                        r.set_resolution("signals")
                        r.set_t2(t2)
                        a_, b_ = payload(int(t2) + 7 * idx + 1), payload(int(t2) + 7 * idx + 2)
                        r._add_data(a_.copy(), dtype=REPH)
                        r._add_data(b_.copy(), dtype=NONR)
                        exp2[t2] = {REPH: a_, NONR: b_, TOTL: a_ + b_}
                        c2.set_spectrum(r, tag=t2)
                    for flag in (TOTL, REPH, NONR):
                        sc = c2.get_TwoDSpectrumContainer(stype=flag)
                        for t2 in t2axis.data:
                            got2 = numpy.array(sc.get_spectrum(float(t2)).data, dtype=numpy.complex128)
                            check(numpy.array_equal(got2, exp2[float(t2)][flag]), "container-view",
                                  lambda: "spectrum container (%s): what is read back for t2=%r is not what was added for it" % (flag, float(t2)))
                except Violation:
                    raise
                except Exception as e:
                    raise Violation("container-view", "container over waiting times: %s: %s" % (type(e).__name__, e))
                if order != sorted(order):
                    ctx.probe("container_filled_out_of_axis_order")
            elif kind == "fault":
                fk = op["kind"]
                ctx.fault(fk)
                events[0] += 1
                S = st["S"]
                si = LEVELS.index(S)
                data = payload(op["pay"])
                if fk == "finer_add":
                    if si == 4 or not st["init"]:
                        ctx.ev(idx, "fault", fk, "n/a")
                        continue
                    eff = LEVELS[si + 1 + op["d"] % (4 - si)]
                    dt = DTYPES[eff][op["d"] % len(DTYPES[eff])]
                    tag = TAGS[op["tag"] % len(TAGS)] if eff == "pathways" else None
                    do_add(idx, eff, dt, tag, data, "MUST_REFUSE",
                           "op %d finer-than-storage _add_data(resolution=%r, dtype=%r) at storage %s" % (idx, eff, dt, S))
                elif fk == "coarser_add":
                    if si == 0:
                        ctx.ev(idx, "fault", fk, "n/a")
                        continue
                    eff = LEVELS[op["d"] % si]
                    dt = DTYPES[eff][op["r"] % len(DTYPES[eff])]
                    ctx.probe("coarser_add_accepted_or_refused")
                    do_add(idx, eff, dt, None, data, "EITHER" if st["init"] else "MUST_ACCEPT",
                           "op %d coarser-than-storage _add_data(resolution=%r, dtype=%r) at storage %s" % (idx, eff, dt, S))
                elif fk == "unknown_dtype":
                    eff = S
                    wrong = [d for lv in LEVELS for d in DTYPES[lv] if d not in DTYPES[eff]] + ["nonsense"]
                    dt = wrong[op["d"] % len(wrong)]
                    tag = TAGS[op["tag"] % len(TAGS)] if eff == "pathways" else None
                    do_add(idx, None if op["r"] % 2 else eff, dt, tag, data, "MUST_REFUSE",
                           "op %d _add_data with dtype %r foreign to level %s" % (idx, dt, eff))
                elif fk == "tag_at_coarse_level":
                    if S == "pathways":
                        ctx.ev(idx, "fault", fk, "n/a")
                        continue
                    dt = DTYPES[S][op["d"] % len(DTYPES[S])]
                    self._either_with_tag(resp, st, do_add, idx, S, dt, TAGS[op["tag"] % len(TAGS)], data)
                elif fk == "missing_tag":
                    if S != "pathways":
                        ctx.ev(idx, "fault", fk, "n/a")
                        continue
                    dt = PTYPES[op["d"] % 8]
                    before = snapshot()
                    try:
                        resp._add_data(data, resolution="pathways", dtype=dt, tag=None)
                        raised = None
                    except Exception as e:
                        raised = e
                    if not st["init"]:
                        st["init"] = True
                    if raised is None:
                        st["ledger"].append(("types", dt, None, data, "pathways"))
                        accepted[0] += 1
                        check_views("op %d untagged pathway-level addition" % idx)
                    else:
                        check_unchanged(before, "op %d untagged pathway-level addition" % idx)
                    ctx.ev(idx, "fault", fk, raised is None)
                elif fk == "duplicate_tag":
                    prev = [e for e in st["ledger"] if e[0] == "pathways"]
                    if S != "pathways" or not prev:
                        ctx.ev(idx, "fault", fk, "n/a")
                        continue
                    e = prev[op["d"] % len(prev)]
                    before = snapshot()
                    try:
                        resp._add_data(data, resolution="pathways", dtype=e[1], tag=e[2])
                        raised = None
                    except Exception as ex:
                        raised = ex
                    if raised is None:
                        st["ledger"].append(("pathways", e[1], e[2], data, "pathways"))
                        accepted[0] += 1
                        check_views("op %d second addition under tag %r" % (idx, e[2]))
                    else:
                        check_unchanged(before, "op %d second addition under tag %r" % (idx, e[2]))
                    ctx.ev(idx, "fault", fk, raised is None)
                elif fk == "raise_resolution":
                    if si == 4:
                        ctx.ev(idx, "fault", fk, "n/a")
                        continue
                    do_setres(idx, LEVELS[si + 1 + op["r"] % (4 - si)], "op %d raising the resolution from %s" % (idx, S))
                elif fk == "processes_to_signals":
                    if S == "processes":
                        do_setres(idx, "signals", "op %d processes->signals" % idx)
                    elif S == "signals":
                        do_setres(idx, "processes", "op %d signals->processes" % idx)
                    else:
                        ctx.ev(idx, "fault", fk, "n/a")
                elif fk == "unknown_resolution":
                    do_setres(idx, ["pathway", "type", "none", "Signals", ""][op["r"] % 5], "op %d unknown resolution name" % idx)
                elif fk == "non_array_payload":
                    eff = S
                    dt = DTYPES[eff][op["d"] % len(DTYPES[eff])]
                    tag = TAGS[op["tag"] % len(TAGS)] if eff == "pathways" else None
                    dup = eff == "pathways" and any(e[0] == "pathways" and e[1] == dt and e[2] == tag for e in st["ledger"])
                    if dup:
                        ctx.ev(idx, "fault", fk, "n/a")
                        continue
                    do_add(idx, eff, dt, tag, [[complex(x) for x in row] for row in data.tolist()], "EITHER",
                           "op %d _add_data with a list payload" % idx)
            else:
                ctx.ev(idx, "noop", kind)
        check_views("end of program")
        ctx.nontrivial = accepted[0] >= 2 and events[0] >= 1

    def _either_with_tag(self, resp, st, do_add, idx, S, dt, tag, data):
        # tag given at a level that has no tags: refused today ("information lost")
        before_len = len(st["ledger"])
        ok = do_add(idx, S, dt, tag, data, "EITHER", "op %d _add_data(resolution=%r, dtype=%r, tag=%r)" % (idx, S, dt, tag))
        return ok

    # --------------------------------------------------- failure bookkeeping
    def crude_signature(self, program, oracle):
        return oracle

    def matches_finding(self, entry, program, oracle):
        return False

    def simplify(self, program):
        if program.get("pre_setres") is not None:
            yield dict(program, pre_setres=None)
        if program["nx"] > 2 or program["ny"] > 2:
            yield dict(program, nx=2, ny=2)
        ops = program["ops"]
        for i, op in enumerate(ops):
            for key in ("d", "tag", "r"):
                if op.get(key):
                    new = list(ops)
                    new[i] = dict(op, **{key: 0})
                    yield dict(program, ops=new)


def _short(got):
    if got[0] != "array":
        return repr(got)
    a = got[1]
    return "array%s sum=%s" % (a.shape, complex(numpy.sum(a)))
