# -*- coding: utf-8 -*-
"""C05 -- energy-units management is transparent and contexts restore units.

Recursive interpreter with real `with energy_units / frequency_units /
length_units` statements (see basisworld for the construction).  Reference
model: a stack of active units, a value store in internal units and an
independent factor table derived from scipy.constants' *-hertz relationships
(not from the expressions core/units.py uses).
"""
import numpy
import scipy.constants as const

from ..core import Violation, SimFault, HarnessError, check, close, maxdiff, fingerprint

TWO_PI = 2.0 * numpy.pi
PC = const.physical_constants

# internal energy unit: angular frequency in rad/fs (hbar = 1)
F_ENERGY = {
    "1/fs": 1.0,
    "int": 1.0,
    "1/cm": TWO_PI * PC["inverse meter-hertz relationship"][0] * 100.0 * 1e-15,
    "eV": TWO_PI * PC["electron volt-hertz relationship"][0] * 1e-15,
    "meV": TWO_PI * PC["electron volt-hertz relationship"][0] * 1e-18,
    "THz": TWO_PI * 1e12 * 1e-15,
    "J": TWO_PI * PC["joule-hertz relationship"][0] * 1e-15,
    "SI": TWO_PI * PC["joule-hertz relationship"][0] * 1e-15,
    "Ha": TWO_PI * PC["hartree-hertz relationship"][0] * 1e-15,
    "a.u.": TWO_PI * PC["hartree-hertz relationship"][0] * 1e-15,
    # wavelength in nm: E = 2 pi c / lambda  (reciprocal)
    "nm": TWO_PI * PC["inverse meter-hertz relationship"][0] * 1e9 * 1e-15,
}
F_LENGTH = {"int": 1.0, "A": 1.0, "nm": 10.0, "m": 1e10, "SI": 1e10,
            "Bohr": PC["Bohr radius"][0] * 1e10, "a.u.": PC["Bohr radius"][0] * 1e10}
ALIAS = {"energy": [{"int", "1/fs"}, {"J", "SI"}, {"Ha", "a.u."}],
         "length": [{"int", "A"}, {"Bohr", "a.u."}, {"m", "SI"}]}
RTOL = 1e-6


def to_internal(u, v):
    v = numpy.asarray(v, dtype=float)
    if u == "nm":
        out = numpy.zeros_like(v)
        nz = v != 0
        out[nz] = F_ENERGY["nm"] / v[nz]
        return out
    return v * F_ENERGY[u]


def from_internal(u, e):
    e = numpy.asarray(e, dtype=float)
    if u == "nm":
        out = numpy.zeros_like(e)
        nz = e != 0
        out[nz] = F_ENERGY["nm"] / e[nz]
        return out
    return e / F_ENERGY[u]


def equivalent(utype, a, b):
    if a == b:
        return True
    return any(a in s and b in s for s in ALIAS.get(utype, []))


ACCESSORS = ["ham_new", "ham_assign", "faxis", "mol_new", "mol_set_energy", "mol_width", "mode_new", "mode_set_energy",
             "agg_coupling", "agg_coupling_matrix", "cf_reorg", "sd_reorg", "length", "ham_rwa", "mol_adiabatic", "submode", "ham_inplace",
             "mol_ham", "mol_vib_ham", "ham_diag", "ham_undiag", "dfun_spline", "mol_diabatic", "abs_interp", "cd_interp",
             "ham_cutoff_recover", "cf_sum_reorg", "dfun_spline0"]
LIBCALLS = ["agg_build", "agg_build_env", "agg_build_raises", "agg_rebuild", "get_Hamiltonian", "relaxation_tensor", "rate_matrix",
            "set_rwa", "time_to_frequency_axis", "frequency_to_time_axis", "thermal_state", "molecule_hamiltonian",
            "cf_add", "sd_from_cf", "ft_cf", "abs_calculate", "propagate", "diagonalize", "convert",
            "cf_underdamped_copy", "cf_underdamped_self_add", "cf_underdamped_inplace_self_add", "sd_underdamped_add",
            "allstates_loop", "allstates_partial"]


class World:
    name = "unitsworld"
    prop_id = "C05"
    level = "fault_enumeration"
    quick_enum_bases = 64        # quick tier: all single-fault placements of the first 64 sampled programs (thorough: of all)
    quick_runs = 4000
    thorough_budget_s = 900
    run_timeout = 120.0
    probe_min_runs = 1500
    required_probes = ["nested_depth_3", "nm_reciprocal", "set_in_one_read_in_other", "libcall_inside_context",
                       "libcall_raises_inside_context", "fault_unwinds_2_levels", "post_fault_ops_executed",
                       "length_context", "frequency_context", "global_set_inside_context", "enforce_probe_inside",
                       "enforce_probe_outside", "mixed_energy_length_nesting", "context_object_reused",
                       "context_object_reused_under_same_units", "failing_convert", "hamiltonian_modified_in_place_between_reads", "api_sweep_call",
                       "molecule_hamiltonian_first_built_here", "hamiltonian_diagonalized_here",
                       "context_object_reentered_while_active", "context_object_reentered_under_other_units",
                       "interpolation_first_used_under_other_units", "generator_body_inside_context",
                       "half_consumed_generator_finished_later"]
    required_faults = ["F1_simfault", "F2_library_call_raises", "F3_unknown_unit"]
    components = {
        "real": ["Manager unit state and conversions", "energy_units / frequency_units / length_units", "set_current_units",
                 "quantarhei.convert", "units-managed descriptors (utils/types.py)",
                 "Hamiltonian.data, FrequencyAxis.start/step/data, Molecule energies/widths, Mode/SubMode frequencies, "
                 "Aggregate resonance couplings, CorrelationFunction/SpectralDensity reorganisation energies",
                 "library calls made inside contexts: Aggregate.build/rebuild, get_Hamiltonian, get_RelaxationTensor, "
                 "get_RedfieldRateMatrix, set_rwa, axis conversions, thermal state, CorrelationFunction addition, "
                 "spectral density / FT correlation function, AbsSpectrumCalculator, propagate, diagonalize"],
        "stub": [],
        "reference_model": ["units stack", "value store in internal units", "independent CODATA factor table"],
    }
    assumptions = [
        "factor table from scipy.constants *-hertz relationships; tolerance 1e-6 (the tree hard-codes the CODATA-2014 Hartree)",
        "alias units (int = 1/fs, J = SI, Ha = a.u.; A = int, Bohr = a.u., m = SI for lengths) count as the same unit",
        "accessors whose getter is documented as not units-managed (Molecule.get_transition_width, Mode.get_energy default) are "
        "checked against the internal value only",
        "wavelength (nm) is not used for FrequencyAxis step/data (a linear axis in wavelength is not linear in energy)",
    ]
    rule = ("program = seeded list of enter/exit of energy/frequency/length units contexts (real nested `with`), set/get through "
            "29 units-managed accessors and builder / calculator calls (Hamiltonians, axes, molecules, modes, aggregates, bath "
            "functions, diagonalisation, cut-off couplings, spline interpolation, spectra set by interpolation) over all 11 energy units, "
            "conversions, global set_current_units, 25 library calls (incl. caller-driven generators), re-used and re-entered context objects and "
            "faults (user exception, raising library call, unknown unit); thorough tier re-runs each sampled program with a user "
            "exception at every position; non-trivial = >=1 context and >=1 set/get/libcall inside it; distinct = distinct "
            "event-log digests among non-trivial runs")

    def gen(self, rng, tier):
        n = rng.randint(3, 30)
        kinds = ["enter", "enter", "enter", "exit", "exit", "set", "set", "get", "get", "get", "convert", "libcall", "libcall",
                 "fault", "badunit", "setglobal", "badconvert", "apisweep"]
        faultfree = rng.random() < 0.3
        if faultfree:
            kinds = [k for k in kinds if k not in ("fault", "badunit", "badconvert")]
        if rng.random() < 0.4:
            drop = rng.sample(["convert", "libcall", "setglobal", "badunit"], rng.randint(1, 2))
            kinds = [k for k in kinds if k not in drop]
        accs = list(range(len(ACCESSORS)))
        if rng.random() < 0.5:
            accs = rng.sample(accs, rng.randint(2, 6))
        libs = list(range(len(LIBCALLS)))
        if rng.random() < 0.5:
            libs = rng.sample(libs, rng.randint(2, 6))
        if faultfree:
            libs = [l for l in libs if LIBCALLS[l] != "agg_build_raises"] or [0]
        ops = []
        for _ in range(n):
            k = rng.choice(kinds)
            if k == "enter":
                ops.append({"op": "enter", "t": rng.choice(["e", "e", "e", "f", "l"]), "u": rng.randrange(16) if rng.random() < 0.7 else rng.randrange(3),
                            "reuse": rng.random() < 0.4})
            elif k == "exit":
                ops.append({"op": "exit"})
            elif k == "fault":
                ops.append({"op": "fault", "unwind": rng.choice([1, 1, 2, 3])})
            elif k == "badunit":
                ops.append({"op": "badunit", "t": rng.choice(["e", "f", "l"]), "u": rng.randrange(6)})
            elif k == "set":
                ops.append({"op": "set", "a": rng.choice(accs), "e": round(10 ** rng.uniform(-2.3, 0.3), 6)})
            elif k == "get":
                ops.append({"op": "get", "a": rng.choice(accs)})
            elif k == "convert":
                ops.append({"op": "convert", "e": round(10 ** rng.uniform(-2.3, 0.3), 6), "a": rng.randrange(16), "b": rng.randrange(16)})
            elif k == "badconvert":
                ops.append({"op": "badconvert", "how": rng.randrange(4), "a": rng.randrange(16)})
            elif k == "apisweep":
                ops.append({"op": "apisweep", "off": rng.randrange(1000), "n": rng.randint(3, 12)})
            elif k == "libcall":
                ops.append({"op": "libcall", "l": rng.choice(libs)})
            elif k == "setglobal":
                ops.append({"op": "setglobal", "t": rng.choice(["e", "e", "l", "reset"]), "u": rng.randrange(16)})
        return {"ops": ops}

    def fault_variants(self, base, rng):
        ops = base["ops"]
        for pos in range(len(ops) + 1):
            new = list(ops)
            if (pos + rng.randrange(4)) % 4 == 0:
                new.insert(pos, {"op": "libcall", "l": LIBCALLS.index("agg_build_raises")})
            else:
                new.insert(pos, {"op": "fault", "unwind": 1 + (pos + rng.randrange(3)) % 3})
            yield dict(base, ops=new)

    def run(self, program, ctx):
        Runner(program, ctx).go()

    def crude_signature(self, program, oracle):
        return oracle

    def matches_finding(self, entry, program, oracle):
        need = entry.get("needs", {})
        ops = program["ops"]
        for name in need.get("libcalls", []):
            if not any(o["op"] == "libcall" and LIBCALLS[o["l"] % len(LIBCALLS)] == name for o in ops):
                return False
        for name in need.get("accessors", []):
            if not any(o["op"] in ("set", "get") and ACCESSORS[o["a"] % len(ACCESSORS)] == name for o in ops):
                return False
        return True

    def simplify(self, program):
        ops = program["ops"]
        for i, op in enumerate(ops):
            for key in ("u", "a", "b"):
                if op.get(key):
                    new = list(ops)
                    new[i] = dict(op, **{key: 0})
                    yield dict(program, ops=new)
            if op["op"] == "fault" and op["unwind"] > 1:
                new = list(ops)
                new[i] = dict(op, unwind=1)
                yield dict(program, ops=new)


class Runner:
    def __init__(self, program, ctx):
        import quantarhei as qr
        from quantarhei.core.managers import Manager
        from quantarhei.core.wrappers import enforce_energy_units_context, prevent_energy_units_context
        self.qr = qr
        self.m = Manager()
        self.program = program
        self.ctx = ctx
        self.EU = list(Manager.units["energy"])
        self.FU = list(Manager.units["frequency"])
        self.LU = list(Manager.units["length"])
        self.cur = {"energy": self.m.get_current_units("energy"), "length": self.m.get_current_units("length")}
        if not (equivalent("energy", self.cur["energy"], "1/fs") and equivalent("length", self.cur["length"], "A")):
            raise HarnessError("run does not start in internal units: %r" % (self.cur,))
        self.freq0 = self.m.get_current_units("frequency")
        self.stack = []          # (utype, backup)
        self.cm_pool = {}        # (constructor name, unit) -> context manager object (re-used sequentially, never re-entered)
        self.cm_active = {}
        self.objs = {}
        self.inside_ops = 0
        self.entered = 0
        self.ta = qr.TimeAxis(0.0, 100, 5.0)
        self._agg = None
        self._vibref = None
        self.partial_generators = []

        @enforce_energy_units_context
        def inside_only():
            return True

        @prevent_energy_units_context
        def outside_only():
            return True
        self.inside_only = inside_only
        self.outside_only = outside_only

    @property
    def depth(self):
        return len(self.stack)

    def eu_depth(self):
        return sum(1 for (t, b) in self.stack if t == "energy")

    # ---------------------------------------------------------------- invariants
    def check_units(self, what):
        for t in ("energy", "length"):
            got = self.m.get_current_units(t)
            check(equivalent(t, got, self.cur[t]), "active-units:" + t,
                  lambda: "%s: active %s units are %r, expected %r" % (what, t, got, self.cur[t]))
        f = self.m.get_current_units("frequency")
        check(f == self.freq0, "active-units:frequency", lambda: "%s: frequency units became %r" % (what, f))
        try:
            self.inside_only()
            ins = True
        except Exception:
            ins = False
        try:
            self.outside_only()
            outs = True
        except Exception:
            outs = False
        exp_in = self.eu_depth() >= 1
        self.ctx.probe("enforce_probe_inside" if exp_in else "enforce_probe_outside")
        check(ins == exp_in and outs == (not exp_in), "context-counter",
              lambda: "%s: %d energy-units contexts active but enforce/prevent probes say inside_allowed=%r outside_allowed=%r"
              % (what, self.eu_depth(), ins, outs))

    # ---------------------------------------------------------------- interpreter
    def go(self):
        ops = self.program["ops"]
        self.check_units("start")
        try:
            self.interp(ops, 0)
        except SimFault:
            raise HarnessError("SimFault escaped depth 0")
        check(self.depth == 0, "harness", "ended at depth %d" % self.depth)
        self.check_units("end of program")
        # everything stored must still read back its internal value
        for a in sorted(self.objs):
            self.do_get(-1, a)
        self.ctx.nontrivial = self.entered >= 1 and self.inside_ops >= 1

    def interp(self, ops, i):
        while i < len(ops):
            op = ops[i]
            self.ctx.step()
            kind = op["op"]
            if kind == "enter":
                i = self.do_enter(ops, i)
                continue
            if kind == "exit":
                if self.depth == 0:
                    i += 1
                    continue
                self.ctx.ev(i, "exit", self.depth)
                return i + 1
            if kind == "fault":
                if self.depth == 0:
                    i += 1
                    continue
                self.ctx.fault("F1_simfault")
                f = SimFault("injected at op %d" % i)
                f.unwind = min(op["unwind"], self.depth)
                f.resume = i + 1
                if f.unwind >= 2:
                    self.ctx.probe("fault_unwinds_2_levels")
                self.ctx.ev(i, "fault", f.unwind, self.depth)
                raise f
            getattr(self, "op_" + kind)(i, op)
            self.check_units("after op %d (%s)" % (i, kind))
            if self.depth >= 1 and kind in ("set", "get", "libcall", "convert", "apisweep"):
                self.inside_ops += 1
            i += 1
        return i

    def do_enter(self, ops, i):
        op = ops[i]
        qr = self.qr
        if self.depth >= 4:
            return i + 1
        if op["t"] == "l":
            utype, u = "length", self.LU[op["u"] % len(self.LU)]
            cm = qr.length_units
            self.ctx.probe("length_context")
        elif op["t"] == "f":
            utype, u = "energy", self.EU[op["u"] % len(self.EU)]
            cm = qr.frequency_units
            self.ctx.probe("frequency_context")
        else:
            utype, u = "energy", self.EU[op["u"] % len(self.EU)]
            cm = qr.energy_units
        if u == "nm" and utype == "energy":
            self.ctx.probe("nm_reciprocal")
        if any(t != utype for (t, b) in self.stack):
            self.ctx.probe("mixed_energy_length_nesting")
        entered = False
        fault = None
        nxt = None
        pre = dict(self.cur)
        key = (cm.__name__, u)
        if op.get("reuse") and key in self.cm_pool:
            cmo = self.cm_pool[key]
            self.ctx.probe("context_object_reused")
            if self.cm_active.get(key, 0) > 0:
                self.ctx.probe("context_object_reentered_while_active")
                if not equivalent(utype, self.cur[utype], u):
                    self.ctx.probe("context_object_reentered_under_other_units")
            if equivalent(utype, self.cur[utype], u):
                self.ctx.probe("context_object_reused_under_same_units")
        else:
            try:
                cmo = cm(u)
            except Exception as e:
                raise Violation("context-enter-raises", "%s(%r): %s: %s" % (cm.__name__, u, type(e).__name__, e))
            if self.cm_active.get(key, 0) == 0:
                self.cm_pool[key] = cmo
        pooled = self.cm_pool.get(key) is cmo
        if pooled:
            self.cm_active[key] = self.cm_active.get(key, 0) + 1
        try:
            with cmo:
                entered = True
                self.stack.append((utype, self.cur[utype]))
                self.cur[utype] = u
                self.entered += 1
                if self.depth >= 3:
                    self.ctx.probe("nested_depth_3")
                self.ctx.ev(i, "enter", utype, u, self.depth)
                self.ctx.cov("enter", utype, u, self.depth)
                self.check_units("after entering %s_units(%r) at op %d" % (utype, u, i))
                nxt = self.interp(ops, i + 1)
        except SimFault as f:
            fault = f
        except (Violation, HarnessError):
            raise
        except Exception as e:
            raise Violation("context-exit-raises" if entered else "context-enter-raises",
                            "%s_units(%r) entered at op %d: %s: %s" % (utype, u, i, type(e).__name__, e))
        if pooled:
            self.cm_active[key] -= 1
        if not entered:
            raise HarnessError("units context not entered")
        t, backup = self.stack.pop()
        self.cur[t] = backup
        self.ctx.cov("exit", utype, self.depth, fault is not None)
        self.check_units("after leaving the units context entered at op %d (%s)" % (i, "exception" if fault else "normal"))
        if fault is not None:
            fault.unwind -= 1
            if fault.unwind > 0:
                raise fault
            if fault.resume < len(ops):
                self.ctx.probe("post_fault_ops_executed")
            return fault.resume
        return nxt if nxt is not None else len(ops)

    # ---------------------------------------------------------------- ops
    def op_badunit(self, i, op):
        qr = self.qr
        self.ctx.fault("F3_unknown_unit")
        cm = {"e": qr.energy_units, "f": qr.frequency_units, "l": qr.length_units}[op["t"]]
        bad = ["foo", "Hz", "cm", "1/m", "kcal", "Kelvin"][op["u"] % 6]
        if op["t"] == "l" and bad in self.LU:
            bad = "foo"
        try:
            with cm(bad):
                raised = None
        except Exception as e:
            raised = e
        check(raised is not None, "unknown-unit-accepted", "op %d: %s(%r) was accepted" % (i, cm.__name__, bad))
        self.ctx.ev(i, "badunit", op["t"], bad)
        self.ctx.cov("badunit", op["t"], self.depth)

    def op_setglobal(self, i, op):
        qr = self.qr
        if op["t"] == "reset":
            qr.set_current_units()
            self.cur["energy"] = "1/fs"
            self.cur["length"] = "A"
            self.ctx.ev(i, "setglobal", "reset")
        elif op["t"] == "l":
            u = self.LU[op["u"] % len(self.LU)]
            qr.set_current_units({"length": u})
            self.cur["length"] = u
            self.ctx.ev(i, "setglobal", "length", u)
        else:
            u = self.EU[op["u"] % len(self.EU)]
            qr.set_current_units({"energy": u})
            self.cur["energy"] = u
            self.ctx.ev(i, "setglobal", "energy", u)
        if self.depth >= 1:
            self.ctx.probe("global_set_inside_context")
        self.ctx.cov("setglobal", op["t"], self.depth)

    SWEEP_SKIP = ("plot", "show", "save", "load", "fig", "movie", "print", "log", "copy", "wipe", "clean")

    def op_apisweep(self, i, op):
        """No library call changes the units that are active for its caller: a seeded selection of ALL public methods
        that can be called without arguments, on freshly built objects of the main classes, returning or raising."""
        import contextlib
        import inspect
        import io as _io
        qr = self.qr
        agg = self.agg(env=True)
        saved = (self.m.current_units["energy"], self.m.current_units["length"])
        agg.build()
        self.m.current_units["energy"], self.m.current_units["length"] = saved       # build itself is judged by its own libcall
        objs = {"aggregate": agg, "molecule": agg.monomers[0], "hamiltonian": agg.get_Hamiltonian(),
                "sbi": agg.get_SystemBathInteraction(), "dipole": agg.get_TransitionDipoleMoment(),
                "timeaxis": self.ta, "frequencyaxis": self.ta.get_FrequencyAxis(),
                "rdm": agg.get_DensityMatrix(condition_type="thermal", temperature=300)}
        with qr.energy_units("1/cm"):
            objs["cf"] = qr.CorrelationFunction(self.ta, dict(ftype="OverdampedBrownian", reorg=30.0, cortime=100.0, T=300, matsubara=10))
            objs["sd"] = qr.SpectralDensity(self.ta, dict(ftype="OverdampedBrownian", reorg=30.0, cortime=100.0, T=300))
        cands = []
        for name in sorted(objs):
            for mn, meth in inspect.getmembers(objs[name], predicate=inspect.ismethod):
                if mn.startswith("_") or any(x in mn.lower() for x in self.SWEEP_SKIP):
                    continue
                try:
                    sig = inspect.signature(meth)
                except Exception:
                    continue
                if any(p.default is p.empty and p.kind in (p.POSITIONAL_ONLY, p.POSITIONAL_OR_KEYWORD) for p in sig.parameters.values()):
                    continue
                cands.append((name, mn, meth))
        if not cands:
            raise HarnessError("API sweep found no callable methods")
        for j in range(op["n"]):
            name, mn, meth = cands[(op["off"] + 37 * j) % len(cands)]
            try:
                with contextlib.redirect_stdout(_io.StringIO()):
                    meth()
                outcome = "returned"
            except Exception as e:
                outcome = "raised " + type(e).__name__
            for t in ("energy", "length"):
                got = self.m.get_current_units(t)
                check(equivalent(t, got, self.cur[t]), "library-call-changed-units",
                      lambda: "op %d: after %s.%s() (%s) the active %s units are %r, they were %r" % (i, name, mn, outcome, t, got, self.cur[t]))
            self.check_units("after %s.%s()" % (name, mn))
            self.ctx.probe("api_sweep_call")
            self.ctx.cov("apisweep", name, mn, outcome.split()[0])
        self.ctx.ev(i, "apisweep", op["off"], op["n"], len(cands))

    def op_badconvert(self, i, op):
        """A conversion that fails (and is caught by the caller) must leave the active units alone."""
        qr = self.qr
        a = self.EU[op["a"] % len(self.EU)]
        how = op["how"] % 4
        self.ctx.fault("F2_library_call_raises")
        try:
            if how == 0:
                qr.convert(0.0, "nm", to=a)
            elif how == 1:
                qr.convert([1.0, 2.0], a, to="1/cm")
            elif how == 2:
                qr.convert(1.0, a, to="no-such-unit")
            else:
                qr.convert(1.0, "no-such-unit", to=a)
            raised = False
        except Exception:
            raised = True
        self.ctx.probe("failing_convert") if raised else None
        self.ctx.ev(i, "badconvert", how, a, raised)
        self.ctx.cov("badconvert", how, raised, self.depth)

    def op_convert(self, i, op):
        a = self.EU[op["a"] % len(self.EU)]
        b = self.EU[op["b"] % len(self.EU)]
        e = op["e"]
        v = float(from_internal(a, e))
        got = self.qr.convert(v, a, to=b)
        exp = float(from_internal(b, e))
        check(abs(got - exp) <= RTOL * abs(exp), "convert-exact",
              lambda: "op %d: convert(%r, %r, to=%r) = %r, expected %r" % (i, v, a, b, got, exp))
        got2 = self.qr.convert(v, a)
        exp2 = float(from_internal(self.cur["energy"], e))
        check(abs(got2 - exp2) <= RTOL * abs(exp2), "convert-to-current",
              lambda: "op %d: convert(%r, %r) under %r = %r, expected %r" % (i, v, a, self.cur["energy"], got2, exp2))
        self.ctx.ev(i, "convert", a, b)
        self.ctx.cov("convert", a, b)

    # -- accessors -----------------------------------------------------
    def op_set(self, i, op):
        name = ACCESSORS[op["a"] % len(ACCESSORS)]
        e = float(op["e"])
        u = self.cur["energy"]
        qr = self.qr
        if name == "length":
            lu = self.cur["length"]
            v = e / F_LENGTH[lu]
            got = self.m.convert_length_2_internal_u(v)
            check(abs(got - e) <= RTOL * e, "length-to-internal",
                  lambda: "op %d: %r %s -> %r A, expected %r" % (i, v, lu, got, e))
            self.objs[name] = (None, e, lu)
            self.ctx.ev(i, "set", name, lu)
            self.ctx.cov("set", name, lu)
            return
        if name in ("faxis", "dfun_spline", "dfun_spline0", "abs_interp", "cd_interp") and u == "nm":
            self.ctx.ev(i, "set", name, "noop-nm")
            return
        if name == "cf_sum_reorg" and self.eu_depth() == 0:
            self.ctx.ev(i, "set", name, "noop-outside")
            return
        if name == "cf_reorg" and self.eu_depth() == 0:
            # constructor is documented to require an energy-units context
            try:
                self._make_cf(name, 1.0)
                raised = None
            except Exception as ex:
                raised = ex
            check(raised is not None, "enforced-context-missing", "op %d: %s built outside of energy_units context" % (i, name))
            self.ctx.ev(i, "set", name, "refused-outside")
            return
        v = float(from_internal(u, e))
        try:
            if name == "ham_new":
                E = numpy.array([[0.0, 0.0, 0.0], [0.0, e, e / 50.0], [0.0, e / 50.0, 1.1 * e]])
                obj = qr.Hamiltonian(data=from_internal(u, E))
                store = E
            elif name == "ham_assign":
                obj = self.objs.get(name, (None,))[0] or qr.Hamiltonian(dim=3)
                E = numpy.array([[0.0, 0.0, 0.0], [0.0, e, e / 40.0], [0.0, e / 40.0, 1.2 * e]])
                obj.data = from_internal(u, E)
                store = E
            elif name == "ham_inplace":
                if u == "nm":
                    self.ctx.ev(i, "set", name, "noop-nm")
                    return
                E = numpy.array([[0.0, 0.0, 0.0], [0.0, e, e / 50.0], [0.0, e / 50.0, 1.1 * e]])
                obj = qr.Hamiltonian(data=from_internal(u, E))
                first = numpy.array(obj.data)          # a read before the matrix is modified in place
                obj.remove_cutoff_coupling(float(from_internal(u, e / 10.0)))
                E = E.copy()
                E[1, 2] = E[2, 1] = 0.0
                store = E
                self.ctx.probe("hamiltonian_modified_in_place_between_reads")
            elif name == "ham_rwa":
                E = numpy.array([[0.0, 0.0, 0.0], [0.0, e, e / 50.0], [0.0, e / 50.0, 1.1 * e]])
                obj = qr.Hamiltonian(data=from_internal(u, E))
                obj.set_rwa([0, 1])
                store = E
            elif name == "ham_cutoff_recover":
                # couplings reduced by a cut-off given in the active units, then given back
                if u == "nm":
                    self.ctx.ev(i, "set", name, "noop-nm")
                    return
                E = numpy.array([[0.0, 0.0, 0.0], [0.0, e, e / 5.0], [0.0, e / 5.0, 1.1 * e]])
                obj = qr.Hamiltonian(data=from_internal(u, E))
                obj.subtract_cutoff_coupling(float(from_internal(u, e / 10.0)))
                mid = numpy.array(obj.data)
                Em = E.copy()
                Em[1, 2] = Em[2, 1] = e / 5.0 - e / 10.0
                check(numpy.all(numpy.abs(mid - from_internal(u, Em)) <= RTOL * numpy.abs(from_internal(u, e))), "value-read-equals-conversion",
                      lambda: "op %d: Hamiltonian after subtract_cutoff_coupling under %r reads %r" % (i, u, mid.tolist()))
                obj.recover_cutoff_coupling()
                store = E
            elif name == "cf_sum_reorg":
                c1 = self._make_cf("cf_reorg", v)
                c2 = self._make_cf("cf_reorg", float(from_internal(u, e / 2.0)))
                obj = (c1 + c2) if int(e * 1e6) % 2 == 0 else c1
                if obj is c1:
                    c1.add_to_data(c2)
                store = 1.5 * e
            elif name == "ham_diag":
                # a calculator call that rewrites the stored matrix: diagonalisation requested under the active units
                E = numpy.array([[0.0, 0.0, 0.0], [0.0, e, e / 5.0], [0.0, e / 5.0, 1.1 * e]])
                obj = qr.Hamiltonian(data=from_internal(u, E))
                obj.diagonalize()
                store = numpy.diag(numpy.linalg.eigvalsh(E))
                self.ctx.probe("hamiltonian_diagonalized_here")
            elif name == "ham_undiag":
                if u == "nm":
                    self.ctx.ev(i, "set", name, "noop-nm")
                    return
                E = numpy.array([[0.0, 0.0, 0.0], [0.0, e, e / 50.0], [0.0, e / 50.0, 1.1 * e]])
                obj = qr.Hamiltonian(data=from_internal(u, E))
                obj.diagonalize(coupling_cutoff=float(from_internal(u, e / 30.0)))
                mid = numpy.array(obj.data)
                check(numpy.all(numpy.abs(mid - from_internal(u, numpy.diag([0.0, e, 1.1 * e]))) <= RTOL * numpy.abs(from_internal(u, e))),
                      "value-read-equals-conversion",
                      lambda: "op %d: Hamiltonian after diagonalize(coupling_cutoff) under %r reads %r" % (i, u, mid.tolist()))
                obj.undiagonalize()
                store = E
            elif name == "faxis":
                obj = qr.FrequencyAxis(v, 5, v / 10.0)
                store = e
            elif name == "dfun_spline0":
                # the same on an axis that starts exactly at zero (zero is zero in every unit)
                fa = qr.FrequencyAxis(0.0, 24, v / 40.0)
                obj = qr.DFunction(fa, numpy.cos(numpy.arange(24) / 4.0))
                store = e
            elif name == "dfun_spline":
                # a function of frequency; its interpolated value at a physical point must not depend on the units
                # that were active when the interpolation was first asked for (that happens right below, in do_get)
                fa = qr.FrequencyAxis(v, 24, v / 40.0)
                obj = qr.DFunction(fa, numpy.cos(numpy.arange(24) / 4.0))
                store = e
            elif name in ("abs_interp", "cd_interp"):
                # a measured spectrum given on its own (non-equidistant) frequency points in the active units
                from quantarhei.spectroscopy.absbase import AbsSpectrumBase
                from quantarhei.spectroscopy.circular_dichroism import CircDichSpectrumBase
                xs = e * (1.0 + 0.02 * numpy.arange(30) + 0.0003 * numpy.arange(30) ** 2)
                ys = numpy.exp(-((xs - 1.3 * e) / (0.1 * e)) ** 2)
                obj = AbsSpectrumBase() if name == "abs_interp" else CircDichSpectrumBase()
                obj.set_by_interpolation(from_internal(u, xs), ys, xaxis="frequency")
                store = e
            elif name == "mol_diabatic":
                # one descriptor list of the caller used for two couplings (the usual way of writing it)
                obj = qr.Molecule([0.0, 1.0, 1.2])
                obj.add_Mode(qr.Mode(frequency=0.05))
                fac = [v, [1]]
                obj.set_diabatic_coupling((0, 1), fac)
                obj.set_diabatic_coupling((1, 2), fac)
                check(fac[0] == v, "caller-argument-changed", lambda: "op %d: set_diabatic_coupling changed the caller's list to %r" % (i, fac))
                store = e
            elif name == "mol_new":
                obj = qr.Molecule([0.0, v])
                store = e
            elif name == "mol_set_energy":
                obj = self.objs.get(name, (None,))[0] or qr.Molecule([0.0, 1.0])
                obj.set_energy(1, v)
                store = e
            elif name == "mol_ham":
                # a builder call: the Hamiltonian of a molecule whose ground-state energy is not zero, first requested here
                obj = qr.Molecule([float(from_internal(u, e / 4.0)), v, float(from_internal(u, 1.1 * e))])
                store = numpy.diag([0.0, e - e / 4.0, 1.1 * e - e / 4.0])
                self.ctx.probe("molecule_hamiltonian_first_built_here")
            elif name == "mol_vib_ham":
                obj = self._vib_molecule(v, float(from_internal(u, e / 40.0)))
                store = e * self.vib_ref()
            elif name == "mol_width":
                obj = self.objs.get(name, (None,))[0] or qr.Molecule([0.0, 1.0])
                obj.set_transition_width((0, 1), v)
                store = e
            elif name == "mol_adiabatic":
                obj = self.objs.get(name, (None,))[0] or qr.Molecule([0.0, 1.0, 1.2])
                obj.set_adiabatic_coupling(1, 2, v)
                store = e
            elif name == "submode":
                from quantarhei.builders.submodes import SubMode
                obj = SubMode(omega=v)
                store = e
            elif name == "mode_new":
                obj = qr.Mode(frequency=v)
                store = e
            elif name == "mode_set_energy":
                pair = self.objs.get(name, (None,))[0]
                if pair is None:
                    mol = qr.Molecule([0.0, 1.0])
                    mod = qr.Mode(frequency=1.0)
                    mol.add_Mode(mod)
                    pair = (mol, mod)
                pair[1].set_energy(1, v)
                obj = pair
                store = e
            elif name in ("agg_coupling", "agg_coupling_matrix"):
                obj = self.objs.get(name, (None,))[0]
                if obj is None:
                    obj = qr.Aggregate([qr.Molecule([0.0, 1.0]), qr.Molecule([0.0, 1.1])])
                if name == "agg_coupling":
                    obj.set_resonance_coupling(0, 1, v)
                elif int(round(abs(v) * 1000)) % 2:
                    obj.set_resonance_coupling_matrix([[0.0, v], [v, 0.0]])
                else:
                    # the caller keeps its numpy array, hands it to a second aggregate as well and edits that one element-wise:
                    # neither the caller's array nor the first aggregate may follow
                    m = numpy.array([[0.0, v], [v, 0.0]])
                    obj.set_resonance_coupling_matrix(m)
                    other = qr.Aggregate([qr.Molecule([0.0, 1.0]), qr.Molecule([0.0, 1.1])])
                    other.set_resonance_coupling_matrix(m)
                    other.set_resonance_coupling(0, 1, 2.0 * v + 1.0)
                    self.ctx.probe("coupling_array_shared_by_two_aggregates")
                    if not numpy.array_equal(m, numpy.array([[0.0, v], [v, 0.0]])):
                        raise Violation("caller-array-unchanged", "op %d: coupling matrix array handed to two aggregates under %s "
                                        "was changed by an element-wise edit of one of them" % (i, u))
                store = e
            elif name in ("cf_reorg", "sd_reorg"):
                obj = self._make_cf(name, v)
                store = e
            else:
                raise HarnessError("unknown accessor " + name)
        except (HarnessError, Violation):
            raise
        except Exception as ex:
            raise Violation("setter-raises", "op %d: %s with %r %s: %s: %s" % (i, name, v, u, type(ex).__name__, ex))
        self.objs[name] = (obj, store, u)
        self.ctx.ev(i, "set", name, u)
        self.ctx.cov("set", name, u)
        self.do_get(i, name)

    def _vib_molecule(self, v, w):
        qr = self.qr
        mol = qr.Molecule([0.0, v])
        mod = qr.Mode(frequency=w)
        mol.add_Mode(mod)
        mod.set_nmax(0, 2)
        mod.set_nmax(1, 2)
        mod.set_HR(1, 0.2)
        return mol

    def vib_ref(self):
        """Hamiltonian (internal units) of the vibrational molecule with unit transition energy, built under internal
        units; every energy of the molecule scales with its transition energy, so H(e) = e * H(1)."""
        if self._vibref is None:
            saved = (self.m.current_units["energy"], self.m.current_units["length"])
            self.m.current_units["energy"] = "int"
            try:
                self._vibref = numpy.array(self._vib_molecule(1.0, 1.0 / 40.0).get_Hamiltonian()._data, dtype=float)
            finally:
                self.m.current_units["energy"], self.m.current_units["length"] = saved
        return self._vibref

    def _make_cf(self, name, v):
        qr = self.qr
        params = dict(ftype="OverdampedBrownian", reorg=v, cortime=100.0, T=300, matsubara=20)
        if name == "cf_reorg":
            return qr.CorrelationFunction(self.ta, params)
        return qr.SpectralDensity(self.ta, params)

    def op_get(self, i, op):
        name = ACCESSORS[op["a"] % len(ACCESSORS)]
        if name not in self.objs:
            return
        self.do_get(i, name)

    def do_get(self, i, name):
        obj, e, uset = self.objs[name]
        u = self.cur["energy"]
        managed = True
        try:
            if name == "length":
                lu = self.cur["length"]
                got = self.m.convert_length_2_current_u(e)
                exp = e / F_LENGTH[lu]
                u = lu
            elif name in ("ham_new", "ham_assign", "ham_inplace", "ham_diag", "ham_undiag", "ham_cutoff_recover"):
                got = numpy.array(obj.data)
                exp = from_internal(u, e)
            elif name == "ham_rwa":
                sk = numpy.array([0.0, (e[1, 1] + e[2, 2]) / 2.0, (e[1, 1] + e[2, 2]) / 2.0])
                if u == "nm":
                    got = numpy.array(obj.get_RWA_skeleton())
                    exp = from_internal(u, sk)
                else:
                    got = numpy.concatenate([numpy.array(obj.get_RWA_skeleton()), numpy.array(obj.get_RWA_data()).ravel()])
                    exp = numpy.concatenate([from_internal(u, sk), (from_internal(u, e) - numpy.diag(from_internal(u, sk))).ravel()])
            elif name == "faxis":
                if u == "nm":
                    got = numpy.array([obj.start])
                    exp = numpy.array([float(from_internal(u, e))])
                else:
                    got = numpy.array([obj.start, obj.step, obj.data[0], obj.data[4]])
                    ee = numpy.array([e, e / 10.0, e, e + 4 * e / 10.0])
                    exp = from_internal(u, ee)
            elif name in ("mol_new", "mol_set_energy"):
                got = obj.get_energy(1)
                exp = float(from_internal(u, e))
            elif name in ("abs_interp", "cd_interp"):
                xs = e * (1.0 + 0.02 * numpy.arange(30) + 0.0003 * numpy.arange(30) ** 2)
                if u == "nm":
                    got = exp = numpy.zeros(0)
                else:
                    got = numpy.array([obj.axis.min, obj.axis.data[int(numpy.argmax(obj.data))]])
                    step = (xs[-1] - xs[0]) / 30.0
                    grid = xs[0] + step * numpy.arange(30)
                    import scipy.interpolate
                    yn = scipy.interpolate.splev(grid, scipy.interpolate.splrep(xs, numpy.exp(-((xs - 1.3 * e) / (0.1 * e)) ** 2), s=0))
                    exp = from_internal(u, numpy.array([xs[0], grid[int(numpy.argmax(yn))]]))
            elif name == "mol_diabatic":
                got = numpy.array([obj.get_diabatic_coupling((0, 1))[0][0], obj.get_diabatic_coupling((1, 2))[0][0]])
                exp = numpy.array([float(from_internal(u, e))] * 2)
            elif name in ("dfun_spline", "dfun_spline0"):
                import scipy.interpolate
                off = e if name == "dfun_spline" else 0.0
                xs = off + (e / 40.0) * numpy.arange(24)
                ref = float(scipy.interpolate.UnivariateSpline(xs, numpy.cos(numpy.arange(24) / 4.0), s=0)(off + e * 7.3 / 40.0))
                xu = float(from_internal(u, off + e * 7.3 / 40.0))
                if u == "nm":
                    # a linear axis in frequency is not linear (nor increasing) in wavelength: not interpolated there
                    got = exp = numpy.zeros(0)
                else:
                    got = numpy.array([float(obj.at(xu, approx="spline")), float(obj.at(xu))])
                    exp = numpy.array([ref, ref])
                if uset != u and not equivalent("energy", uset, u):
                    self.ctx.probe("interpolation_first_used_under_other_units")
            elif name in ("mol_ham", "mol_vib_ham"):
                got = numpy.array(obj.get_Hamiltonian().data)
                exp = from_internal(u, e)
            elif name == "mol_width":
                got = obj.get_transition_width((0, 1))
                exp = e
                managed = False
            elif name == "mol_adiabatic":
                got = obj.get_adiabatic_coupling(1, 2)
                exp = e
                managed = False
            elif name == "submode":
                got = obj.omega
                exp = e
                managed = False
            elif name == "mode_new":
                got = numpy.array([obj.get_energy(0, no_conversion=False), obj.get_energy(0)])
                exp = numpy.array([float(from_internal(u, e)), e])
            elif name == "mode_set_energy":
                got = numpy.array([obj[1].get_energy(1, no_conversion=False), obj[1].get_energy(1)])
                exp = numpy.array([float(from_internal(u, e)), e])
            elif name in ("agg_coupling", "agg_coupling_matrix"):
                got = obj.get_resonance_coupling(0, 1)
                exp = float(from_internal(u, e))
            elif name in ("cf_reorg", "sd_reorg", "cf_sum_reorg"):
                got = obj.get_reorganization_energy()
                exp = float(from_internal(u, e))
            else:
                raise HarnessError("unknown accessor " + name)
        except HarnessError:
            raise
        except Exception as ex:
            raise Violation("getter-raises", "op %d: %s under %r: %s: %s" % (i, name, u, type(ex).__name__, ex))
        got = numpy.asarray(got, dtype=float)
        exp = numpy.asarray(exp, dtype=float)
        check(got.shape == exp.shape and numpy.all(numpy.abs(got - exp) <= RTOL * numpy.abs(exp) + 1e-300),
              "value-read-equals-conversion",
              lambda: "op %d: %s supplied under %r and read under %r: got %r, expected %r"
              % (i, name, uset, u, got.tolist(), exp.tolist()))
        if uset != u and not equivalent("energy", uset, u):
            self.ctx.probe("set_in_one_read_in_other")
        self.ctx.ev(i, "get", name, uset, u, fingerprint(got))
        self.ctx.cov("get", name, uset, u, managed)

    # -- library calls ---------------------------------------------------
    def agg(self, env=True, fresh=False, bad=False):
        qr = self.qr
        ta = qr.TimeAxis(0.0, 100, 5.0)
        with qr.energy_units("1/cm"):
            m1 = qr.Molecule([0.0, 12000.0])
            m2 = qr.Molecule([0.0, 12100.0])
            if env:
                cf = qr.CorrelationFunction(ta, dict(ftype="OverdampedBrownian", reorg=30.0, cortime=100.0, T=300, matsubara=20))
                m1.set_transition_environment((0, 1), cf)
                if bad:
                    ta2 = qr.TimeAxis(0.0, 50, 5.0)
                    cf2 = qr.CorrelationFunction(ta2, dict(ftype="OverdampedBrownian", reorg=30.0, cortime=100.0, T=300, matsubara=20))
                    m2.set_transition_environment((0, 1), cf2)
                else:
                    m2.set_transition_environment((0, 1), cf)
            a = qr.Aggregate([m1, m2])
            a.set_resonance_coupling(0, 1, 100.0)
        m1.set_dipole(0, 1, [1.0, 0.0, 0.0])
        m2.set_dipole(0, 1, [0.0, 1.0, 0.0])
        return a

    def built(self):
        if self._agg is None:
            qr = self.qr
            a = self.agg(env=True)
            # build outside of everything the program has set up: save and restore by hand
            saved = (self.m.get_current_units("energy"), self.m.get_current_units("length"))
            a.build()
            self.m.current_units["energy"] = saved[0]
            self.m.current_units["length"] = saved[1]
            self._agg = a
        return self._agg

    def op_libcall(self, i, op):
        qr = self.qr
        name = LIBCALLS[op["l"] % len(LIBCALLS)]
        expect_raise = False
        if name == "agg_build":
            a = self.agg(env=False)
            th = a.build
        elif name == "agg_build_env":
            a = self.agg(env=True)
            th = a.build
        elif name == "agg_build_raises":
            a = self.agg(env=True, bad=True)
            th = a.build
            expect_raise = True
        elif name == "agg_rebuild":
            th = self.built().rebuild
        elif name == "get_Hamiltonian":
            th = self.built().get_Hamiltonian
        elif name == "relaxation_tensor":
            a = self.built()
            th = lambda: a.get_RelaxationTensor(qr.TimeAxis(0.0, 100, 5.0), relaxation_theory="stR")
        elif name == "rate_matrix":
            th = self.built().get_RedfieldRateMatrix
        elif name == "set_rwa":
            a = self.built()
            th = lambda: a.get_Hamiltonian().set_rwa([0, 1])
        elif name == "time_to_frequency_axis":
            th = lambda: qr.TimeAxis(0.0, 64, 1.0).get_FrequencyAxis()
        elif name == "frequency_to_time_axis":
            fa = qr.TimeAxis(0.0, 64, 1.0).get_FrequencyAxis()
            th = fa.get_TimeAxis
        elif name == "thermal_state":
            a = self.built()
            th = lambda: a.get_DensityMatrix(condition_type="thermal", temperature=300)
        elif name == "molecule_hamiltonian":
            a = self.built()
            th = lambda: a.monomers[0].get_Hamiltonian()
        elif name in ("cf_add", "sd_from_cf", "ft_cf"):
            with qr.energy_units("1/cm"):
                c1 = qr.CorrelationFunction(self.ta, dict(ftype="OverdampedBrownian", reorg=20.0, cortime=100.0, T=300, matsubara=20))
                c2 = qr.CorrelationFunction(self.ta, dict(ftype="OverdampedBrownian", reorg=10.0, cortime=50.0, T=300, matsubara=20))
            if name == "cf_add":
                th = lambda: c1 + c2
            elif name == "sd_from_cf":
                th = c1.get_SpectralDensity
            else:
                th = c1.get_FTCorrelationFunction
        elif name.startswith("cf_underdamped") or name == "sd_underdamped_add":
            with qr.energy_units("1/cm"):
                prm = dict(ftype="UnderdampedBrownian", reorg=20.0, freq=300.0, gamma=10.0, T=300)
                if name == "sd_underdamped_add":
                    c1 = qr.SpectralDensity(self.ta, prm)
                    c2 = qr.SpectralDensity(self.ta, dict(ftype="OverdampedBrownian", reorg=10.0, cortime=50.0, T=300))
                else:
                    c1 = qr.CorrelationFunction(self.ta, prm)
            if name == "cf_underdamped_copy":
                th = c1.copy
            elif name == "cf_underdamped_self_add":
                th = lambda: c1 + c1
            elif name == "cf_underdamped_inplace_self_add":
                def th():
                    x = c1
                    x += x
            else:
                th = lambda: (c1 + c2) + c1
        elif name == "abs_calculate":
            a = self.built()

            def th():
                ta = qr.TimeAxis(0.0, 100, 5.0)
                calc = qr.AbsSpectrumCalculator(ta, system=a)
                calc.bootstrap(rwa=qr.convert(12050.0, "1/cm", "int"))
                return calc.calculate()
        elif name == "propagate":
            a = self.built()

            def th():
                ta = qr.TimeAxis(0.0, 20, 5.0)
                H = a.get_Hamiltonian()
                prop = qr.ReducedDensityMatrixPropagator(ta, H)
                rho = qr.ReducedDensityMatrix(dim=H.dim)
                rho.data[1, 1] = 1.0
                return prop.propagate(rho)
        elif name == "diagonalize":
            a = self.built()
            th = a.diagonalize
        elif name in ("allstates_loop", "allstates_partial"):
            # a public generator: its body runs interleaved with the caller's code, which must keep seeing its own units
            a = self.built()
            seen = []

            def th():
                it = a.allstates(mult=1)
                k = 0
                for item in it:
                    seen.append((self.m.get_current_units("energy"), self.m.get_current_units("length")))
                    k += 1
                    if name == "allstates_partial" and k >= 1:
                        break
                if name == "allstates_partial":
                    self.partial_generators.append(it)        # finished (or dropped) later, under whatever units are active then
                    self.ctx.probe("generator_left_half_consumed")
        elif name == "convert":
            th = lambda: qr.convert(1.0, "eV", to="1/cm")
        else:
            raise HarnessError("unknown libcall " + name)
        try:
            th()
            raised = None
        except Exception as e:
            raised = e
        if name.startswith("allstates"):
            for (eu, lu) in seen:
                check(equivalent("energy", eu, self.cur["energy"]) and equivalent("length", lu, self.cur["length"]),
                      "library-call-changed-units",
                      lambda: "op %d: inside the caller's loop over Aggregate.allstates() the active units are %r/%r, the caller's are %r/%r"
                      % (i, eu, lu, self.cur["energy"], self.cur["length"]))
            if seen and self.depth >= 1:
                self.ctx.probe("generator_body_inside_context")
            # generators left half-consumed earlier are finished now
            while self.partial_generators and name == "allstates_loop":
                g = self.partial_generators.pop()
                try:
                    for _ in g:
                        pass
                except Exception:
                    pass
                self.ctx.probe("half_consumed_generator_finished_later")
        if self.depth >= 1:
            self.ctx.probe("libcall_inside_context")
        if raised is not None:
            self.ctx.fault("F2_library_call_raises")
            if self.depth >= 1:
                self.ctx.probe("libcall_raises_inside_context")
            if not expect_raise:
                # a completing call is not promised by C05; only the units afterwards are judged (below)
                self.ctx.probe("unexpected_libcall_exception:" + name)
        # clause: no library call changes the units that are active for its caller
        for t in ("energy", "length"):
            got = self.m.get_current_units(t)
            check(equivalent(t, got, self.cur[t]), "library-call-changed-units",
                  lambda: "op %d: after %s (%s) the active %s units are %r, they were %r"
                  % (i, name, "raised %s" % type(raised).__name__ if raised is not None else "returned", t, got, self.cur[t]))
        self.ctx.ev(i, "libcall", name, raised is None, self.cur["energy"])
        self.ctx.cov("libcall", name, raised is None, self.cur["energy"], self.depth)
