# -*- coding: utf-8 -*-
"""C18 -- saved objects and exported data load back to the same physical values.

Real code: Saveable.save/load/scopy/savedir/loaddir, Parcel, DataSaveable and
MatrixData format dispatch, one live instance of every saveable class the
property names.  Simulated storage: parcels go to in-memory SimFile objects
with a write-fault knob (or to a per-run scratch directory for by-path APIs).
Save / load happen inside seeded nestings of units and basis contexts (real
`with` statements, recursive interpreter).

Oracle: right after a load the loaded object and its source read the same
observables under whatever contexts are active (1e-12); at the end, outside of
all contexts, every loaded object reads the ground truth captured when its
source was created, and so does the source.
"""
import errno
import io
import os
import shutil
import tempfile

import numpy

from ..core import Violation, SimFault, HarnessError, check, close, maxdiff, fingerprint

CLASSES = ["TimeAxis", "FrequencyAxis", "ValueAxis", "DFunctionReal", "DFunctionComplex", "Operator", "SelfAdjoint",
           "Hamiltonian", "RDM", "Molecule", "Aggregate", "CorrelationFunction", "SpectralDensity", "AbsSpectrum",
           "AbsSpectrumContainer", "TwoDResponse", "TwoDResponseContainer", "RDMEvolution", "LindbladTensor", "LindbladOps",
           "SelfAdjointComplex"]
BASIS_CLASSES = ("Operator", "SelfAdjoint", "Hamiltonian", "RDM", "RDMEvolution", "LindbladTensor", "LindbladOps", "SelfAdjointComplex")
CTX_CLASSES = ("SelfAdjoint", "Hamiltonian", "RDM", "SelfAdjointComplex")
# classes with real-typed storage are kept out of programs that enter the eigenbasis of a complex Hermitian operator
# (their presentation there is the subject of a known finding of C04, not of the save/load round trip)
NOT_WITH_COMPLEX_CONTEXT = ("Hamiltonian", "LindbladOps", "Molecule", "Aggregate")
UNITS = ["1/cm", "eV", "THz", "meV", "int"]
FORMATS = [".txt", ".dat", ".npy", ".npz", ".mat"]
DIM = 3
TOL = 1e-11


class SimFile(io.BytesIO):
    """In-memory file whose write() fails with ENOSPC after `budget` bytes."""

    def __init__(self, budget=None):
        super().__init__()
        self.budget = budget
        self.written = 0

    def write(self, b):
        if self.budget is not None and self.written + len(b) > self.budget:
            raise OSError(errno.ENOSPC, "No space left on simulated device")
        self.written += len(b)
        return super().write(b)


class World:
    name = "storeworld"
    prop_id = "C18"
    level = "exploration"
    quick_runs = 2500
    thorough_budget_s = 900
    run_timeout = 180.0
    probe_min_runs = 1000
    required_probes = ["save_inside_basis_context_transformed", "load_inside_basis_context", "save_inside_units_context",
                       "load_inside_units_context", "save_and_load_in_different_contexts", "fileobject_parcel", "path_parcel",
                       "scopy", "savedir_loaddir", "export_with_axis", "export_complex", "export_2d", "failed_write_then_good_save",
                       "nested_basis_and_units", "fault_unwinds", "large_file_rewritten", "two_directories_in_one_session", "several_objects_in_one_file", "imported_axis_saved", "format:.txt", "format:.npy", "format:.npz", "format:.mat", "format:.dat",
                       "complex_basis_context", "save_inside_complex_basis_context", "same_object_exported_again_under_other_units",
                       "export_matrix_with_a_singleton_dimension", "import_into_object_holding_real_data",
                       "saved_in_two_sibling_basis_contexts", "whole_array_write_inside_basis_context",
                       "saved_while_protected_inside_context"]
    required_faults = ["write_ENOSPC", "F1_simfault", "refused_savedir"]
    components = {
        "real": ["Saveable.save/load/scopy/savedir/loaddir", "Parcel / load_parcel (dill)", "DataSaveable.save_data/load_data, "
                 "MatrixData.save_data/load_data", "BasisManaged pickling hooks", "energy_units / eigenbasis_of around save and load",
                 "TimeAxis, FrequencyAxis, ValueAxis, DFunction, Operator, SelfAdjointOperator, Hamiltonian, ReducedDensityMatrix, "
                 "Molecule, Aggregate, CorrelationFunction, SpectralDensity, AbsSpectrum(+Container), TwoDResponse(+Container), "
                 "ReducedDensityMatrixEvolution, LindbladForm"],
        "stub": ["storage: in-memory SimFile with an ENOSPC knob for file-object APIs; per-run scratch directory for by-path APIs",
                 "uuid.uuid4 replaced by a seeded counter (determinism of savedir)"],
        "reference_model": ["slot -> observables of the source captured at creation (depth 0, internal units)"],
    }
    assumptions = [
        "write faults are history elements only: after a failed save the object and the Manager must be unchanged and the next save must round-trip",
        "text formats round-trip to 1e-15 relative (numpy.savetxt writes 18 significant digits)",
        "a 1-D array may come back from .mat as a (1,N) or (N,1) matrix: only values are compared for that format",
    ]
    rule = ("program = seeded list of enter/exit of energy_units and eigenbasis_of contexts (real nested `with`), touch (read inside a "
            "context), save (path / file object / savedir / scopy), load, export and import in 5 formats x real/complex x 1-D/2-D x "
            "with/without axis (singleton dimensions, pre-filled targets, re-exports under other units), whole-array writes, saves "
            "while protected, sibling and complex-Hermitian basis contexts, injected write failures, refused savedir and user exceptions; non-trivial = >=1 save-load round trip with >=1 context "
            "active at save or load time, or >=1 export/import; distinct = distinct event-log digests among non-trivial runs")

    def gen(self, rng, tier):
        n = rng.randint(3, 20)
        classes = list(range(len(CLASSES) - 1))
        if rng.random() < 0.6:
            classes = rng.sample(classes, rng.randint(2, 7))
        if rng.random() < 0.15:
            # swarm member: basis contexts of a complex Hermitian operator (unitary, not orthogonal, transformation)
            classes = [c for c in classes if CLASSES[c] not in NOT_WITH_COMPLEX_CONTEXT and CLASSES[c] not in ("SelfAdjoint", "RDM")]
            classes += [CLASSES.index("SelfAdjointComplex"), CLASSES.index("RDM") if False else CLASSES.index("Operator")]
        kinds = ["wholewrite", "protected_save",
                 "enter_u", "enter_b", "enter_b", "exit", "exit", "touch", "touch", "save", "save", "save", "load", "load", "load",
                 "scopy", "savedir", "export", "export", "fault", "badsave", "multisave"]
        if rng.random() < 0.3:
            kinds = [k for k in kinds if k not in ("fault", "badsave")]
        ops = []
        if rng.random() < 0.15:
            # swarm member: two sibling basis contexts (same depth, different operators) inside one outer context, the
            # same object touched and saved in each of them
            kk = rng.randrange(32)
            ops += [{"op": "enter", "t": "b", "k": rng.randrange(8)}, {"op": "enter", "t": "b", "k": rng.randrange(8)},
                    {"op": "touch", "k": kk}, {"op": "save", "k": kk, "how": rng.choice(["file", "path"])}, {"op": "exit"},
                    {"op": "enter", "t": "b", "k": rng.randrange(8)}, {"op": "touch", "k": kk},
                    {"op": "save", "k": kk, "how": rng.choice(["file", "path"])}, {"op": "exit"}, {"op": "exit"},
                    {"op": "load", "s": 0}, {"op": "load", "s": 1}]
        for _ in range(n):
            k = rng.choice(kinds)
            if k == "enter_u":
                ops.append({"op": "enter", "t": "u", "u": rng.randrange(len(UNITS))})
            elif k == "enter_b":
                ops.append({"op": "enter", "t": "b", "k": rng.randrange(8)})
            elif k == "exit":
                ops.append({"op": "exit"})
            elif k == "fault":
                ops.append({"op": "fault", "unwind": rng.choice([1, 1, 2])})
            elif k == "touch":
                ops.append({"op": "touch", "k": rng.randrange(32)})
            elif k == "wholewrite":
                ops.append({"op": "wholewrite", "k": rng.randrange(32), "c": rng.randint(1, 9), "save": rng.random() < 0.5})
            elif k == "protected_save":
                ops.append({"op": "protected_save", "k": rng.randrange(32), "how": rng.choice(["save", "scopy"])})
            elif k == "save":
                ops.append({"op": "save", "k": rng.randrange(32), "how": rng.choice(["file", "file", "path"])})
            elif k == "badsave":
                ops.append({"op": "badsave", "k": rng.randrange(32), "budget": rng.choice([0, 10, 100, 1000])})
            elif k == "load":
                ops.append({"op": "load", "s": rng.randrange(32)})
            elif k == "scopy":
                ops.append({"op": "scopy", "k": rng.randrange(32)})
            elif k == "savedir":
                ops.append({"op": "savedir", "k": rng.randrange(32), "k2": rng.randrange(32), "bad": rng.random() < 0.4})
            elif k == "multisave":
                ops.append({"op": "multisave", "ks": [rng.randrange(32) for _ in range(rng.randint(2, 3))]})
            elif k == "export":
                ops.append({"op": "export", "src": rng.choice(["dfun", "dfun", "abs", "oper", "twod"]), "fmt": rng.randrange(len(FORMATS)),
                            "cplx": rng.random() < 0.5, "twod": rng.random() < 0.4, "axis": rng.random() < 0.5,
                            "pay": rng.randrange(1 << 30), "big": rng.random() < 0.06,
                            "single": rng.choice([0, 0, 0, 0, 1, 2]), "again": rng.random() < 0.5,
                            "prefill": rng.random() < 0.3, "layout": rng.choice([0, 0, 1, 2])})
                if ops[-1]["src"] == "abs" and rng.random() < 0.5:
                    # ... and the same spectrum once more inside (another) units context
                    ops.append({"op": "enter", "t": "u", "u": rng.randrange(len(UNITS))})
                    ops.append(dict(ops[-2], again=True, pay=rng.randrange(1 << 30), fmt=rng.randrange(len(FORMATS))))
                    ops.append({"op": "exit"})
        return {"classes": classes, "seed": rng.randrange(1 << 30), "ops": ops}

    def fault_variants(self, base, rng):
        return []

    def run(self, program, ctx):
        r = Runner(program, ctx)
        try:
            r.go()
        finally:
            r.cleanup()

    def crude_signature(self, program, oracle):
        return oracle

    def matches_finding(self, entry, program, oracle):
        need = entry.get("needs", {})
        ops = program["ops"]
        if "export_fmt" in need:
            if not any(o["op"] == "export" and FORMATS[o["fmt"] % len(FORMATS)] in need["export_fmt"]
                       and (not need.get("export_src") or o["src"] in need["export_src"])
                       and (need.get("cplx") is None or bool(o["cplx"]) == need["cplx"]) for o in ops):
                return False
        return True

    def simplify(self, program):
        if len(program["classes"]) > 1:
            for c in program["classes"]:
                yield dict(program, classes=[c])
        ops = program["ops"]
        for i, op in enumerate(ops):
            for key in ("k", "s", "u"):
                if op.get(key):
                    new = list(ops)
                    new[i] = dict(op, **{key: 0})
                    yield dict(program, ops=new)
            if op["op"] == "export":
                for key in ("cplx", "twod", "axis"):
                    if op.get(key):
                        new = list(ops)
                        new[i] = dict(op, **{key: False})
                        yield dict(program, ops=new)


class Item:
    __slots__ = ("cls", "real", "truth", "src")


class Runner:
    def __init__(self, program, ctx):
        import quantarhei as qr
        import quantarhei.core.saveable as sv
        self.qr = qr
        self.m = qr.Manager()
        self.p = program
        self.ctx = ctx
        self.items = []
        self.slots = []          # dicts: kind, payload, src index, ctx at save
        self.stack = []          # ("u", unit) / ("b", item index)
        self.roundtrips = 0
        self.exports = 0
        self.scratch = tempfile.mkdtemp(prefix="qsim-store-", dir=os.environ.get("QSIM_SCRATCH"))
        self.counter = [0]
        self.failed_save_pending = set()
        self.serial = 0
        self.stack_serial = []
        self.sibling_saves = []

        class _U:
            def __init__(s, c):
                s.c = c

            def __str__(s):
                return "qsim-%06d" % s.c

        def fake_uuid4():
            self.counter[0] += 1
            return _U(self.counter[0])
        sv.uuid.uuid4 = fake_uuid4

    def cleanup(self):
        shutil.rmtree(self.scratch, ignore_errors=True)

    # ---------------------------------------------------------------- pool
    def make(self, cls, g):
        qr = self.qr
        N = DIM
        if cls == "TimeAxis":
            return qr.TimeAxis(float(g.integers(0, 5)), int(g.integers(5, 30)), float(g.choice([0.5, 1.0, 2.5])))
        if cls == "FrequencyAxis":
            with qr.energy_units("1/cm"):
                return qr.FrequencyAxis(float(g.integers(10000, 12000)), int(g.integers(5, 30)), float(g.choice([5.0, 10.0])))
        if cls == "ValueAxis":
            return qr.core.valueaxis.ValueAxis(float(g.integers(-5, 5)), int(g.integers(5, 30)), float(g.choice([0.1, 1.0])))
        if cls in ("DFunctionReal", "DFunctionComplex"):
            ta = qr.TimeAxis(0.0, int(g.integers(5, 30)), 1.0)
            y = g.uniform(-1, 1, size=ta.length)
            if cls == "DFunctionComplex":
                y = y + 1j * g.uniform(-1, 1, size=ta.length)
            return qr.DFunction(ta, y)
        if cls == "Operator":
            return qr.qm.Operator(data=g.uniform(-1, 1, size=(N, N)) + 1j * g.uniform(-1, 1, size=(N, N)))
        if cls in ("SelfAdjoint", "RDM"):
            a = g.uniform(-1, 1, size=(N, N))
            h = (a + a.T) / 2.0
            return qr.qm.SelfAdjointOperator(data=h) if cls == "SelfAdjoint" else qr.ReducedDensityMatrix(data=h @ h.T)
        if cls == "SelfAdjointComplex":
            a = g.uniform(-1, 1, size=(N, N)) + 1j * g.uniform(-1, 1, size=(N, N))
            return qr.qm.SelfAdjointOperator(data=(a + a.conj().T) / 2.0)
        if cls == "Hamiltonian":
            a = g.uniform(-100, 100, size=(N, N))
            with qr.energy_units("1/cm"):
                return qr.Hamiltonian(data=(a + a.T) / 2.0 + numpy.diag([0.0, 10000.0, 10200.0]))
        if cls == "Molecule":
            with qr.energy_units("1/cm"):
                mol = qr.Molecule([0.0, float(g.integers(11000, 12000)), float(g.integers(12000, 13000))])
            mol.set_dipole(0, 1, [float(x) for x in g.uniform(-1, 1, size=3)])
            return mol
        if cls == "Aggregate":
            with qr.energy_units("1/cm"):
                m1 = qr.Molecule([0.0, float(g.integers(11000, 13000))])
                m2 = qr.Molecule([0.0, float(g.integers(11000, 13000))])
                agg = qr.Aggregate([m1, m2])
                agg.set_resonance_coupling(0, 1, float(g.integers(20, 300)))
            m1.set_dipole(0, 1, [1.0, 0.0, 0.0])
            m2.set_dipole(0, 1, [0.0, 1.0, 0.0])
            agg.build()
            return agg
        if cls in ("CorrelationFunction", "SpectralDensity"):
            ta = qr.TimeAxis(0.0, 100, 2.0)
            with qr.energy_units("1/cm"):
                c = getattr(qr, cls)(ta, dict(ftype="OverdampedBrownian", reorg=float(g.integers(10, 60)),
                                              cortime=float(g.integers(30, 200)), T=300, matsubara=10))
            return c
        if cls in ("AbsSpectrum", "AbsSpectrumContainer"):
            with qr.energy_units("1/cm"):
                fa = qr.FrequencyAxis(10000.0, 20, 10.0)
            sp = qr.AbsSpectrum(axis=fa, data=g.uniform(0, 1, size=20))
            if cls == "AbsSpectrum":
                return sp
            from quantarhei.spectroscopy.abscontainer import AbsSpectrumContainer
            cont = AbsSpectrumContainer(axis=fa)
            cont.set_spectrum(sp, tag=0)
            cont.set_spectrum(qr.AbsSpectrum(axis=fa, data=g.uniform(0, 1, size=20)), tag=1)
            return cont
        if cls in ("TwoDResponse", "TwoDResponseContainer"):
            from quantarhei.spectroscopy.twod2 import TwoDResponse
            from quantarhei.spectroscopy.twodcontainer import TwoDResponseContainer

            def one():
                r = TwoDResponse()
                with qr.energy_units("1/cm"):
                    r.set_axis_1(qr.FrequencyAxis(10000.0, 4, 10.0))
                    r.set_axis_3(qr.FrequencyAxis(10000.0, 5, 10.0))
                r._add_data(g.uniform(-1, 1, size=(4, 5)) + 0j, resolution="pathways", dtype="R1g", tag="a")
                r._add_data(g.uniform(-1, 1, size=(4, 5)) + 0j, resolution="pathways", dtype="R2g", tag="b")
                return r
            if cls == "TwoDResponse":
                return one()
            cont = TwoDResponseContainer()
            cont.use_indexing_type("integer")
            cont.set_spectrum(one(), tag=0)
            cont.set_spectrum(one(), tag=1)
            return cont
        if cls == "RDMEvolution":
            ta = qr.TimeAxis(0.0, 4, 1.0)
            rho = qr.ReducedDensityMatrix(data=numpy.eye(N) / N)
            ev = qr.qm.ReducedDensityMatrixEvolution(ta, rhoi=rho)
            ev.data = g.uniform(-1, 1, size=(4, N, N)) + 1j * g.uniform(-1, 1, size=(4, N, N))
            return ev
        if cls in ("LindbladTensor", "LindbladOps"):
            from quantarhei.qm import LindbladForm, SystemBathInteraction
            H = qr.Hamiltonian(data=numpy.diag(numpy.arange(N, dtype=float)))
            sbi = SystemBathInteraction(sys_operators=[qr.qm.ProjectionOperator(0, 1, dim=N), qr.qm.ProjectionOperator(1, 2, dim=N)],
                                        rates=[float(g.uniform(0.01, 0.1)), float(g.uniform(0.01, 0.1))])
            return LindbladForm(H, sbi, as_operators=(cls == "LindbladOps"))
        raise HarnessError("unknown class " + cls)

    def obs(self, cls, o):
        """Observables through public accessors, under whatever contexts are active."""
        qr = self.qr
        A = numpy.array
        if cls in ("TimeAxis", "ValueAxis"):
            return {"start": A(o.start), "step": A(o.step), "length": A(o.length), "data": A(o.data)}
        if cls == "FrequencyAxis":
            return {"start": A(o.start), "step": A(o.step), "length": A(o.length), "data": A(o.data)}
        if cls.startswith("DFunction"):
            return {"axis": A(o.axis.data), "data": A(o.data)}
        if cls in ("Operator", "SelfAdjoint", "RDM", "Hamiltonian", "RDMEvolution", "LindbladTensor", "SelfAdjointComplex"):
            return {"data": A(o.data)}
        if cls == "LindbladOps":
            return {"Km": A(o.Km), "Lm": A(o.Lm), "Ld": A(o.Ld)}
        if cls == "Molecule":
            return {"e1": A(o.get_energy(1)), "dip": A(o.get_dipole(0, 1)), "H": A(o.get_Hamiltonian().data)}
        if cls == "Aggregate":
            return {"H": A(o.get_Hamiltonian().data), "D": A(o.get_TransitionDipoleMoment().data), "J": A(o.get_resonance_coupling(0, 1))}
        if cls in ("CorrelationFunction", "SpectralDensity"):
            return {"data": A(o.data), "axis": A(o.axis.data), "lamb": A(o.get_reorganization_energy())}
        if cls == "AbsSpectrum":
            return {"data": A(o.data), "axis": A(o.axis.data)}
        if cls == "AbsSpectrumContainer":
            sp = o.get_spectra()
            return {"n": A(len(sp)), "d0": A(sp[0].data), "d1": A(sp[1].data), "axis": A(o.axis.data)}
        if cls == "TwoDResponse":
            o.set_data_flag("total_2D_signal")
            tot = A(o.d__data)
            o.set_data_flag(["R1g", "a"])
            pa = A(o.d__data)
            return {"total": tot, "R1g_a": pa, "x": A(o.xaxis.data), "y": A(o.yaxis.data), "res": A(LEVEL(o.storage_resolution))}
        if cls == "TwoDResponseContainer":
            out = {}
            for t in (0, 1):
                r = o.get_response(t)
                r.set_data_flag("total_2D_signal")
                out["tot%d" % t] = A(r.d__data)
            return out
        raise HarnessError("unknown class " + cls)

    # ---------------------------------------------------------------- helpers
    def pick_item(self, k, pred=lambda it: True):
        cand = [n for n, it in enumerate(self.items) if pred(it)]
        if not cand:
            return None
        return cand[k % len(cand)]

    def compare_now(self, a_cls, a, b, what, oracle):
        try:
            oa = self.obs(a_cls, a)
        except Exception as e:
            raise Violation("read-raises", "%s: reading the source: %s: %s" % (what, type(e).__name__, e))
        try:
            ob = self.obs(a_cls, b)
        except Exception as e:
            raise Violation("loaded-object-read-raises", "%s: reading the loaded %s: %s: %s" % (what, a_cls, type(e).__name__, e))
        self.same(oa, ob, what, oracle, a_cls)

    def same(self, oa, ob, what, oracle, cls):
        for k in oa:
            x, y = numpy.asarray(oa[k]), numpy.asarray(ob[k])
            sc = max(1e-300, float(numpy.max(numpy.abs(x))) if x.size else 1.0)
            check(x.shape == y.shape and close(x.astype(complex), y.astype(complex), rtol=TOL, scale=sc), oracle,
                  lambda: "%s: %s.%s differs: %s" % (what, cls, k, maxdiff(x.astype(complex), y.astype(complex)) if x.shape == y.shape
                                                    else "shape %r vs %r" % (x.shape, y.shape)))

    def context_signature(self):
        return tuple((t, v if t == "u" else "b") for (t, v) in self.stack)

    def manager_state(self):
        return (self.m.get_current_units("energy"), self.m.get_current_basis(), len(self.m.basis_stack),
                sorted(self.m.basis_registered.keys()))

    # ---------------------------------------------------------------- interpreter
    def go(self):
        g = numpy.random.Generator(numpy.random.PCG64(self.p["seed"]))
        for c in self.p["classes"]:
            cls = CLASSES[c % len(CLASSES)]
            try:
                real = self.make(cls, g)
            except Exception as e:
                raise HarnessError("cannot build %s: %s: %s" % (cls, type(e).__name__, e))
            it = Item()
            it.cls, it.real, it.src = cls, real, None
            it.truth = self.obs(cls, real)
            self.items.append(it)
        self.nsrc = len(self.items)
        self.ctx.ev("cfg", [CLASSES[c % len(CLASSES)] for c in self.p["classes"]])
        try:
            self.interp(self.p["ops"], 0)
        except SimFault:
            raise HarnessError("SimFault escaped depth 0")
        check(len(self.stack) == 0, "harness", "ended at depth %d" % len(self.stack))
        check(self.manager_state() == ("1/fs", 0, 1, []) or self.m.get_current_units("energy") in ("1/fs", "int"),
              "manager-restored", "Manager state at the end: %r" % (self.manager_state(),))
        for n, it in enumerate(self.items):
            try:
                now = self.obs(it.cls, it.real)
            except Exception as e:
                raise Violation("loaded-object-read-raises" if it.src is not None else "read-raises",
                                "end: item #%d (%s%s): %s: %s" % (n, it.cls, "" if it.src is None else ", loaded", type(e).__name__, e))
            self.same(it.truth, now, "end of program: item #%d (%s)" % (n, "source" if it.src is None else "loaded from a save of #%d" % it.src),
                      "loaded-equals-saved" if it.src is not None else "source-unchanged", it.cls)
        self.ctx.nontrivial = self.roundtrips >= 1 or self.exports >= 1

    def interp(self, ops, i):
        while i < len(ops):
            op = ops[i]
            self.ctx.step()
            kind = op["op"]
            if kind == "enter":
                i = self.do_enter(ops, i)
                continue
            if kind == "exit":
                if not self.stack:
                    i += 1
                    continue
                return i + 1
            if kind == "fault":
                if not self.stack:
                    i += 1
                    continue
                self.ctx.fault("F1_simfault")
                self.ctx.probe("fault_unwinds")
                f = SimFault("injected at op %d" % i)
                f.unwind = min(op["unwind"], len(self.stack))
                f.resume = i + 1
                raise f
            getattr(self, "op_" + kind)(i, op)
            i += 1
        return i

    def do_enter(self, ops, i):
        op = ops[i]
        qr = self.qr
        if len(self.stack) >= 3:
            return i + 1
        if op["t"] == "u":
            u = UNITS[op["u"] % len(UNITS)]
            cm = qr.energy_units(u)
            tag = ("u", u)
        else:
            k = self.pick_item(op["k"], lambda it: it.cls in CTX_CLASSES)
            if k is None:
                return i + 1
            cm = qr.eigenbasis_of(self.items[k].real)
            tag = ("b", k)
            if self.items[k].cls == "SelfAdjointComplex":
                self.ctx.probe("complex_basis_context")
        fault = None
        nxt = None
        with_entered = False
        try:
            with cm:
                with_entered = True
                self.stack.append(tag)
                self.serial += 1
                self.stack_serial.append(self.serial)
                if len(set(t for t, v in self.stack)) == 2:
                    self.ctx.probe("nested_basis_and_units")
                self.ctx.ev(i, "enter", tag[0], tag[1] if tag[0] == "u" else self.items[tag[1]].cls, len(self.stack))
                nxt = self.interp(ops, i + 1)
        except SimFault as f:
            fault = f
        except (Violation, HarnessError):
            raise
        except Exception as e:
            raise Violation("context-exit-raises" if with_entered else "context-enter-raises",
                            "context %r entered at op %d: %s: %s" % (tag, i, type(e).__name__, e))
        if not with_entered:
            raise HarnessError("context not entered")
        self.stack.pop()
        self.stack_serial.pop()
        if fault is not None:
            fault.unwind -= 1
            if fault.unwind > 0:
                raise fault
            return fault.resume
        return nxt if nxt is not None else len(ops)

    # ---------------------------------------------------------------- ops
    def units_now(self):
        us = [v for t, v in self.stack if t == "u"]
        return us[-1] if us else "int"

    def in_basis_ctx(self):
        return any(t == "b" for t, v in self.stack)

    def in_units_ctx(self):
        return any(t == "u" and v not in ("int", "1/fs") for t, v in self.stack)

    def op_touch(self, i, op):
        k = self.pick_item(op["k"])
        if k is None:
            return
        it = self.items[k]
        try:
            self.obs(it.cls, it.real)
        except Exception as e:
            raise Violation("loaded-object-read-raises" if it.src is not None else "read-raises",
                            "op %d: reading item #%d (%s): %s: %s" % (i, k, it.cls, type(e).__name__, e))
        self.ctx.ev(i, "touch", k, it.cls)
        self.ctx.cov("touch", it.cls, self.context_signature())

    def op_wholewrite(self, i, op):
        """The first access of a Hamiltonian inside a basis context is a whole-array write (what load_data does). The
        values written are a multiple of the unit matrix - the same matrix in every basis - so the ground truth is known."""
        if not self.in_basis_ctx():
            return
        k = self.pick_item(op["k"], lambda it: it.cls == "Hamiltonian")
        if k is None:
            return
        it = self.items[k]
        c_int = 0.01 * op["c"]
        try:
            it.real.data = float(self.m.convert_energy_2_current_u(c_int)) * numpy.eye(DIM)
        except Exception as e:
            raise Violation("write-raises", "op %d: whole-array write into item #%d under %r: %s: %s" % (i, k, self.context_signature(), type(e).__name__, e))
        it.truth = {"data": c_int * numpy.eye(DIM)}
        for sl in self.slots:
            if sl["src"] == k:
                sl["stale"] = True
        # loaded copies of this item made earlier keep the truth they were loaded with; later saves carry the new one
        self.ctx.probe("whole_array_write_inside_basis_context")
        self.ctx.ev(i, "wholewrite", k, op["c"])
        self.ctx.cov("wholewrite", self.context_signature())
        if op.get("save"):
            try:
                cp = it.real.scopy()
            except Exception as e:
                raise Violation("scopy-raises", "op %d: %s: %s" % (i, type(e).__name__, e))
            self._register_loaded(i, {"src": k, "cls": it.cls, "ctx": self.context_signature()}, cp, "scopy after a whole-array write")

    def op_protected_save(self, i, op):
        """An object is protected from basis changes after it was brought into the context's basis, and saved while
        protected: the loaded object must show what the saved one shows."""
        if not self.in_basis_ctx():
            return
        k = self.pick_item(op["k"], lambda it: it.cls in ("Operator", "SelfAdjoint", "RDM", "SelfAdjointComplex"))
        if k is None:
            return
        it = self.items[k]
        try:
            self.obs(it.cls, it.real)
            it.real.protect_basis()
        except Exception as e:
            raise Violation("read-raises", "op %d: %s: %s" % (i, type(e).__name__, e))
        try:
            try:
                if op["how"] == "scopy":
                    cp = it.real.scopy()
                else:
                    f = SimFile()
                    it.real.save(f, test=True)
                    f.seek(0)
                    cp = self.qr.load_parcel(f)
            except Exception as e:
                raise Violation("save-raises", "op %d: saving the protected item #%d (%s): %s: %s" % (i, k, it.cls, type(e).__name__, e))
            self.compare_now(it.cls, it.real, cp, "op %d: %s of item #%d (%s) while protected inside %r" % (i, op["how"], k, it.cls, self.context_signature()),
                             "loaded-equals-saved")
        finally:
            it.real.unprotect_basis()
        self.roundtrips += 1
        self.ctx.probe("saved_while_protected_inside_context")
        self.ctx.ev(i, "protected_save", k, it.cls, op["how"])
        self.ctx.cov("protected_save", it.cls, op["how"])

    def _probe_save(self, it):
        if self.in_basis_ctx() and it.cls in BASIS_CLASSES:
            try:
                if it.real.get_current_basis() != 0:
                    self.ctx.probe("save_inside_basis_context_transformed")
                    bs = [(sr, v) for (t, v), sr in zip(self.stack, self.stack_serial) if t == "b"]
                    if len(bs) >= 2:
                        outer, inner = tuple(sr for sr, v in bs[:-1]), bs[-1]
                        if any(o == outer and (sr != inner[0] and v != inner[1]) for (o, sr, v) in self.sibling_saves):
                            self.ctx.probe("saved_in_two_sibling_basis_contexts")
                        self.sibling_saves.append((outer, inner[0], inner[1]))
                    if any(t == "b" and self.items[v].cls == "SelfAdjointComplex" for t, v in self.stack):
                        self.ctx.probe("save_inside_complex_basis_context")
            except Exception:
                pass
        if self.in_units_ctx():
            self.ctx.probe("save_inside_units_context")

    def op_save(self, i, op):
        k = self.pick_item(op["k"])
        if k is None:
            return
        it = self.items[k]
        self._probe_save(it)
        before = self.manager_state()
        try:
            if op["how"] == "file":
                f = SimFile()
                it.real.save(f, test=True)
                slot = {"kind": "file", "f": f}
                self.ctx.probe("fileobject_parcel")
            else:
                path = os.path.join(self.scratch, "s%d.qrp" % len(self.slots))
                it.real.save(path)
                slot = {"kind": "path", "path": path}
                self.ctx.probe("path_parcel")
        except Exception as e:
            raise Violation("save-raises", "op %d: saving item #%d (%s) under %r: %s: %s"
                            % (i, k, it.cls, self.context_signature(), type(e).__name__, e))
        check(self.manager_state() == before, "save-changed-manager", "op %d: Manager state %r -> %r" % (i, before, self.manager_state()))
        slot.update({"src": k, "cls": it.cls, "ctx": self.context_signature()})
        self.slots.append(slot)
        if k in self.failed_save_pending:
            self.ctx.probe("failed_write_then_good_save")
            self.failed_save_pending.discard(k)
        self.ctx.ev(i, "save", k, it.cls, op["how"], self.context_signature())
        self.ctx.cov("save", it.cls, op["how"], self.context_signature())

    def op_badsave(self, i, op):
        k = self.pick_item(op["k"])
        if k is None:
            return
        it = self.items[k]
        self.ctx.fault("write_ENOSPC")
        before = self.manager_state()
        try:
            snap = self.obs(it.cls, it.real)
        except Exception:
            return
        f = SimFile(budget=op["budget"])
        # NB: the exception object is not kept: a traceback holding dill's pickler frames alive crashes
        # CPython 3.12.1 in a later garbage collection (interpreter bug, unrelated to quantarhei)
        raised = None
        try:
            it.real.save(f)
        except Exception as e:
            raised = type(e).__name__
            e.__traceback__ = None
            del e
        if raised is None:
            # small objects may fit into the budget: it is then an ordinary save
            self.ctx.ev(i, "badsave", k, "fitted")
            return
        check(self.manager_state() == before, "failed-save-changed-manager",
              "op %d: Manager state %r -> %r after a failed save" % (i, before, self.manager_state()))
        self.same(snap, self.obs(it.cls, it.real), "op %d: after a failed save of item #%d" % (i, k), "failed-save-changed-object", it.cls)
        self.failed_save_pending.add(k)
        self.ctx.ev(i, "badsave", k, it.cls, raised)
        self.ctx.cov("badsave", it.cls, op["budget"])

    def _register_loaded(self, i, slot, obj, how):
        src = slot["src"]
        it = Item()
        it.cls, it.real, it.src = slot["cls"], obj, src
        it.truth = self.items[src].truth
        what = "op %d: %s of item #%d (%s) saved under %r, loaded under %r" % (i, how, src, slot["cls"], slot["ctx"], self.context_signature())
        self.compare_now(it.cls, self.items[src].real, obj, what, "loaded-equals-saved")
        self.items.append(it)
        self.roundtrips += 1 if (slot["ctx"] or self.context_signature()) else 0
        if self.in_basis_ctx():
            self.ctx.probe("load_inside_basis_context")
        if self.in_units_ctx():
            self.ctx.probe("load_inside_units_context")
        if slot["ctx"] != self.context_signature():
            self.ctx.probe("save_and_load_in_different_contexts")

    def op_load(self, i, op):
        if not self.slots:
            return
        slot = self.slots[op["s"] % len(self.slots)]
        if slot.get("stale"):
            return           # its source was given other values since: there is nothing to compare the parcel with
        src = self.items[slot["src"]]
        before = self.manager_state()
        try:
            if slot["kind"] == "file":
                obj = src.real.load(slot["f"], test=True)
            else:
                obj = self.qr.load_parcel(slot["path"])
        except Exception as e:
            raise Violation("load-raises", "op %d: loading %s saved under %r, now under %r: %s: %s"
                            % (i, slot["cls"], slot["ctx"], self.context_signature(), type(e).__name__, e))
        check(self.manager_state() == before, "load-changed-manager", "op %d: Manager state %r -> %r" % (i, before, self.manager_state()))
        self._register_loaded(i, slot, obj, "load")
        self.ctx.ev(i, "load", slot["src"], slot["cls"], slot["ctx"], self.context_signature())
        self.ctx.cov("load", slot["cls"], slot["ctx"], self.context_signature())

    def op_scopy(self, i, op):
        k = self.pick_item(op["k"])
        if k is None:
            return
        it = self.items[k]
        if not hasattr(it.real, "scopy"):
            return
        self._probe_save(it)
        try:
            obj = it.real.scopy()
        except Exception as e:
            raise Violation("scopy-raises", "op %d: item #%d (%s): %s: %s" % (i, k, it.cls, type(e).__name__, e))
        self.ctx.probe("scopy")
        self._register_loaded(i, {"src": k, "cls": it.cls, "ctx": self.context_signature()}, obj, "scopy")
        self.roundtrips += 1
        self.ctx.ev(i, "scopy", k, it.cls, self.context_signature())
        self.ctx.cov("scopy", it.cls, self.context_signature())

    def op_savedir(self, i, op):
        k1 = self.pick_item(op["k"])
        k2 = self.pick_item(op["k2"])
        if k1 is None or k2 is None:
            return
        d = os.path.join(self.scratch, "dir%d" % i)
        a, b = self.items[k1], self.items[k2]
        # every directory gets its own tags (a directory must only ever list what was saved into it)
        t1, t2 = 10 * i + 1, 10 * i + 2
        try:
            a.real.savedir(d, tag=t1)
            b.real.savedir(d, tag=t2)
        except Exception as e:
            raise Violation("savedir-raises", "op %d: %s: %s" % (i, type(e).__name__, e))
        if op.get("bad"):
            # a third object that cannot be saved (it carries a generator): the refusal must leave the directory readable
            junk = self.qr.TimeAxis(0.0, 3, 1.0)
            junk.note = (x for x in range(3))
            refused = False
            try:
                junk.savedir(d, tag=10 * i + 3)
            except Exception:
                refused = True            # NB: the exception object is not kept (see op_badsave)
            self.ctx.fault("refused_savedir")
            check(refused, "harness", "an object holding a generator was saved")
        try:
            out = a.real.loaddir(d)
        except Exception as e:
            raise Violation("savedir-raises", "op %d: loaddir%s: %s: %s" % (i, " after a refused savedir into the same directory" if op.get("bad") else "",
                                                                           type(e).__name__, e))
        check(sorted(out.keys()) == [t1, t2], "savedir-tags", "op %d: directory lists tags %r, saved %r" % (i, sorted(out.keys()), [t1, t2]))
        self.ctx.probe("savedir_loaddir")
        self.nsavedir = getattr(self, "nsavedir", 0) + 1
        if self.nsavedir >= 2:
            self.ctx.probe("two_directories_in_one_session")
        self._register_loaded(i, {"src": k1, "cls": a.cls, "ctx": self.context_signature()}, out[t1], "savedir/loaddir")
        self._register_loaded(i, {"src": k2, "cls": b.cls, "ctx": self.context_signature()}, out[t2], "savedir/loaddir")
        self.ctx.ev(i, "savedir", k1, k2)
        self.ctx.cov("savedir", a.cls, b.cls)

    def op_multisave(self, i, op):
        """Several objects written one after another into one open file are read back in the same order."""
        ks = [self.pick_item(k) for k in op["ks"]]
        if any(k is None for k in ks):
            return
        f = SimFile()
        try:
            for k in ks:
                self.items[k].real.save(f)
            f.seek(0)
            out = [self.qr.load_parcel(f) for _ in ks]
        except Exception as e:
            raise Violation("save-raises", "op %d: %d objects into one file: %s: %s" % (i, len(ks), type(e).__name__, e))
        for k, obj in zip(ks, out):
            it = self.items[k]
            check(type(obj) is type(it.real), "sequential-load-order",
                  lambda: "op %d: object saved as %s came back as %s" % (i, type(it.real).__name__, type(obj).__name__))
            self._register_loaded(i, {"src": k, "cls": it.cls, "ctx": self.context_signature()}, obj, "sequential load from one file")
        self.ctx.probe("several_objects_in_one_file")
        self.ctx.ev(i, "multisave", ks)
        self.ctx.cov("multisave", tuple(self.items[k].cls for k in ks))

    def op_export(self, i, op):
        qr = self.qr
        fmt = FORMATS[op["fmt"] % len(FORMATS)]
        g = numpy.random.Generator(numpy.random.PCG64(op["pay"]))
        src = op["src"]
        n = 7
        cplx, twod, with_axis = bool(op["cplx"]), bool(op["twod"]), bool(op["axis"])
        if src == "oper":
            # MatrixData route: square matrix, no axis, no .mat
            if fmt == ".mat":
                return
            twod, with_axis = True, False
            y = g.uniform(-1, 1, size=(DIM, DIM))
            if cplx:
                y = y + 1j * g.uniform(-1, 1, size=(DIM, DIM))
            a = qr.qm.Operator(data=y.copy())
            b = qr.qm.Operator(dim=DIM)
        elif src == "abs":
            cplx, twod, with_axis = False, False, True
            y = g.uniform(0, 1, size=n)
            with qr.energy_units("1/cm"):
                fa = qr.FrequencyAxis(10000.0, n, 10.0)
                fb = qr.FrequencyAxis(0.0, n, 1.0)
            a = qr.AbsSpectrum(axis=fa, data=y.copy())
            if op.get("again") and getattr(self, "kept_abs", None) is not None:
                # the SAME spectrum object is exported once more (possibly under other units than last time)
                a, y, sig = self.kept_abs
                if sig != self.units_now():
                    self.ctx.probe("same_object_exported_again_under_other_units")
            self.kept_abs = (a, y, self.units_now())
            b = qr.AbsSpectrum(axis=fb, data=numpy.zeros(n))
        elif src == "twod":
            from quantarhei.spectroscopy.twod2 import TwoDResponse
            cplx, twod, with_axis = True, True, False
            y = g.uniform(-1, 1, size=(4, 5)) + 1j * g.uniform(-1, 1, size=(4, 5))

            def mk():
                r = TwoDResponse()
                r.set_axis_1(qr.FrequencyAxis(0.0, 4, 1.0))
                r.set_axis_3(qr.FrequencyAxis(0.0, 5, 1.0))
                return r
            a = mk()
            a._add_data(y.copy(), resolution="off", dtype="total_2D_signal")
            a.set_data_flag("total_2D_signal")
            b = mk()
            b.set_resolution("off")
            b.set_data_flag("total_2D_signal")
        else:
            if op.get("big"):
                n = 70000          # more than 1 MiB of complex data: large-file code paths
                cplx = True
            ta = qr.TimeAxis(1.0, n, 0.5)
            shape = (n, 3) if twod else (n,)
            single = 0 if op.get("big") else int(op.get("single", 0))
            if single == 1:
                shape, twod = (n, 1), True                  # a matrix with one column
            elif single == 2:
                shape, twod, with_axis = (1, n), True, False    # a matrix with one row
            y = g.uniform(-1, 1, size=shape)
            if cplx:
                y = y + 1j * g.uniform(-1, 1, size=shape)
            a = qr.DFunction()
            a.axis = ta
            a.data = y.copy()
            lay = int(op.get("layout", 0))
            if twod and lay and not op.get("big"):
                # same values, other memory layout (Fortran order / a transposed view): exports go by index, not by memory
                a.data = numpy.asfortranarray(y) if lay == 1 else numpy.ascontiguousarray(y.T).T
                self.ctx.probe("export_of_non_contiguous_2d_data")
            b = qr.DFunction()
            b.axis = qr.TimeAxis(0.0, n, 1.0)
            if op.get("prefill"):
                # the receiving object already holds (real) data of the same shape, e.g. from an earlier import
                b.data = numpy.zeros(shape, dtype=float)
                self.ctx.probe("import_into_object_holding_real_data")
        path = os.path.join(self.scratch, "e%d%s" % (i, fmt))
        axis_a = getattr(a, "axis", None)
        what = "op %d: %s export/import %s %s %s %s" % (i, src, fmt, "complex" if cplx else "real", "2-D" if twod else "1-D",
                                                       "with axis" if with_axis else "no axis")
        try:
            if src in ("oper", "abs"):
                a.save_data(path)
            elif with_axis:
                a.save_data(path, with_axis=axis_a)
            else:
                a.save_data(path)
        except Exception as e:
            raise Violation("export-raises", "%s: %s: %s" % (what, type(e).__name__, e))
        try:
            if src in ("oper", "abs"):
                b.load_data(path)
            elif with_axis:
                b.load_data(path, with_axis=b.axis)
            else:
                b.load_data(path)
        except Exception as e:
            raise Violation("import-raises", "%s: %s: %s" % (what, type(e).__name__, e))
        try:
            got = numpy.array(b.data)
        except Exception as e:
            raise Violation("import-raises", "%s: reading imported data: %s: %s" % (what, type(e).__name__, e))
        if fmt == ".mat" and not twod:
            got = got.reshape(-1)
        if src == "dfun" and 1 in y.shape:
            self.ctx.probe("export_matrix_with_a_singleton_dimension")
            if fmt in (".txt", ".dat") or with_axis:
                # text files (and the two-column layout used with an axis) cannot tell a column matrix from a vector
                got = got.reshape(y.shape) if got.size == y.size else got
        check(got.shape == y.shape and close(got.astype(complex), y.astype(complex), rtol=1e-14, scale=1.0), "imported-equals-exported",
              lambda: "%s: %s" % (what, maxdiff(got.astype(complex), y.astype(complex)) if got.shape == y.shape
                                  else "shape %r vs %r" % (got.shape, y.shape)))
        if with_axis:
            ax = numpy.real(numpy.array(b.axis.data)).reshape(-1)
            check(close(ax, numpy.array(axis_a.data), rtol=1e-14, scale=max(1.0, float(numpy.max(numpy.abs(axis_a.data))))),
                  "imported-axis-equals-exported", lambda: "%s: axis %s" % (what, maxdiff(ax, numpy.array(axis_a.data))))
            self.ctx.probe("export_with_axis")
        if with_axis and src == "dfun" and not op.get("big"):
            try:
                b2 = b.scopy()
            except Exception as e:
                raise Violation("scopy-raises", "%s: scopy of the imported function: %s: %s" % (what, type(e).__name__, e))
            check(close(numpy.real(numpy.array(b2.axis.data)).reshape(-1), numpy.real(numpy.array(b.axis.data)).reshape(-1), rtol=1e-14, scale=1.0)
                  and close(numpy.array(b2.data).astype(complex), numpy.array(b.data).astype(complex), rtol=1e-14, scale=1.0),
                  "loaded-equals-saved", lambda: "%s: a saved copy of the imported function has other axis values or data" % what)
            self.ctx.probe("imported_axis_saved")
        if op.get("big") and src == "dfun":
            # the file is written again with other content: what was imported before must not change
            a.data = numpy.array(a.data) * 2.0 + 1.0
            try:
                if with_axis:
                    a.save_data(path, with_axis=axis_a)
                else:
                    a.save_data(path)
            except Exception as e:
                raise Violation("export-raises", "%s (second export to the same file): %s: %s" % (what, type(e).__name__, e))
            again = numpy.array(b.data)
            if fmt == ".mat" and not twod:
                again = again.reshape(-1)
            check(again.shape == y.shape and close(again.astype(complex), y.astype(complex), rtol=1e-14, scale=1.0),
                  "imported-data-follow-the-file", lambda: "%s: data imported earlier changed when the file was written again" % what)
            self.ctx.probe("large_file_rewritten")
        if cplx:
            self.ctx.probe("export_complex")
        if twod:
            self.ctx.probe("export_2d")
        self.ctx.probe("format:" + fmt)
        self.exports += 1
        self.ctx.ev(i, "export", src, fmt, cplx, twod, with_axis, fingerprint(got))
        self.ctx.cov("export", src, fmt, cplx, twod, with_axis, self.context_signature())


def LEVEL(res):
    return ["off", "signals", "processes", "types", "pathways"].index(res)
