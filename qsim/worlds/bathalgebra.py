# -*- coding: utf-8 -*-
"""C09 -- bath correlation functions / spectral densities add linearly.

Real code: CorrelationFunction, SpectralDensity (+, +=, self addition, copy,
construction under unit contexts, refused additions), Even/Odd FT parts,
measure_reorganization_energy.  Reference model: every pool entry is an
ordered list of component specifications in internal units (plus arrays of
value-defined operands); expected data = sum over components of the data of
a *fresh single-component* object built under internal units.
"""
import numpy

from ..core import Violation, HarnessError, check, close, maxdiff, fingerprint

CF_TYPES = ["OverdampedBrownian", "OverdampedBrownian-HighTemperature", "UnderdampedBrownian"]
SD_TYPES = ["OverdampedBrownian", "UnderdampedBrownian"]
KF_CF_TYPES = ["Underdamped"]
KF_SD_TYPES = ["Underdamped", "CP29"]
UNITS = ["int", "1/cm", "eV", "meV", "THz", "1/fs", "Ha"]
ENERGY_KEYS = ("reorg", "freq", "gamma")
RT = 1e-11
AXGROUP = {0: 0, 1: 0, 2: 2, 3: 3}
PALETTE = [{"reorg": 30.0, "cortime": 100.0, "freq": 300.0, "gamma": 20.0, "matsubara": 20},
           {"reorg": 12.5, "cortime": 60.0, "freq": 150.0, "gamma": 8.0, "matsubara": 5}]
QUERIES = ["ft_window", "ft_window", "ft", "ftcf", "sd_or_cf", "even", "odd", "at", "measure", "getters", "copy_drop", "ift_of_ft"]


class Entry:
    __slots__ = ("kind", "real", "comps", "T", "axis", "alive")


class World:
    name = "bathalgebra"
    prop_id = "C09"
    level = "exploration"
    quick_runs = 4000
    thorough_budget_s = 900
    run_timeout = 40.0
    probe_min_runs = 1500
    required_probes = ["mixed_types_sum", "three_component_grouping_left", "three_component_grouping_right", "inplace_add",
                       "self_add", "add_inside_units_context", "constructed_under_units", "refused_temperature",
                       "refused_axis", "value_defined_right_operand", "sum_of_sums", "spectral_density_sum",
                       "even_odd_checked", "measure_checked", "copy_of_composite", "public_add_to_data", "template_dict_reused",
                       "windowed_transform_query", "query_inside_units_context", "same_numbers_under_different_units",
                       "numerical_spectral_density_operand", "matrix_filled_inside_units_context",
                       "temperatures_differing_by_less_than_a_percent", "composite_from_a_list_of_parameter_sets",
                       "mixed_temperature_density_converted_without_temperature", "value_defined_function_built_under_units",
                       "measured_before_and_after_public_addition"]
    required_faults = ["different_temperature", "different_axis"]
    components = {
        "real": ["CorrelationFunction / SpectralDensity constructors, __add__, __iadd__, add_to_data(2), copy",
                 "get_Even/OddFTCorrelationFunction, measure_reorganization_energy, get_reorganization_energy"],
        "stub": [],
        "reference_model": ["component-list ledger per pool entry; fresh single-component objects as the definition of "
                            "'the components' data'"],
    }
    assumptions = [
        "the refusal of different temperatures is demanded of correlation functions only (a spectral density carries no temperature)",
        "after a refused in-place addition the left operand is retired (atomic refusal is not promised); all other objects must be unchanged",
        "component types Underdamped and CP29 are exercised only in the dedicated known-findings zone",
        "measure_reorganization_energy is compared within the library's own consistency tolerance (1e-3 of the sum) for overdamped types",
    ]
    rule = ("program = seeded list of constructions (type x parameters x unit context x axis x temperature), a+b, a+=b, a+a, copy, "
            "value-defined and numerically obtained right operands, composites from lists of parameter sets, refused additions "
            "(temperature, near-equal temperature, axis), read-only queries (windowed transforms, conversions, interpolation), "
            "functions handed to a CorrelationFunctionMatrix under units, and reads; after every op every pool entry is "
            "compared with the sum of freshly built single components; non-trivial = >=1 accepted addition with >=2 component "
            "types or >=3 components; distinct = distinct event-log digests among non-trivial runs")

    def gen(self, rng, tier):
        kf = rng.random() < 0.1
        n = rng.randint(3, 14)
        ops = []
        npre = rng.randint(2, 4)
        sdrun = rng.random() < 0.3
        for _ in range(npre):
            ops.append(self._gen_new(rng, kf, sdrun))
        kinds = ["new", "add", "add", "add", "iadd", "selfadd", "copy", "valdef", "measure", "measure", "evenodd", "addctx", "pubadd", "query", "sdfromcf", "cfm", "newlist", "sdtocf"]
        # swarm member: the same NUMBERS handed over under different units (30 means 30 1/cm here and 30 THz there)
        palette = rng.random() < 0.3
        if palette:
            for o in ops:
                if rng.random() < 0.7:
                    o["palette"] = rng.randrange(2)
                    o["T"] = 0
        if sdrun:
            kinds = kinds + ["sdtocf", "sdtocf", "add"]
        for _ in range(n):
            k = rng.choice(kinds)
            if k == "new":
                o = self._gen_new(rng, kf, sdrun)
                if palette and rng.random() < 0.7:
                    o["palette"] = rng.randrange(2)
                    o["T"] = 0
                ops.append(o)
            elif k == "newlist":
                ops.append({"op": "newlist", "a": self._gen_new(rng, False, False), "b": self._gen_new(rng, False, False),
                            "tcase": rng.choice(["same", "same", "close", "far"]), "unit": rng.randrange(len(UNITS))})
            elif k == "sdtocf":
                ops.append({"op": "sdtocf", "i": rng.randrange(16), "explicit": rng.random() < 0.4})
            elif k == "valdef":
                ops.append({"op": "valdef", "i": rng.randrange(16), "unit": rng.randrange(len(UNITS))})
            elif k == "cfm":
                ops.append({"op": "cfm", "i": rng.randrange(16), "j": rng.randrange(16), "unit": rng.randrange(len(UNITS)), "unit2": rng.randrange(len(UNITS))})
            elif k == "query":
                ops.append({"op": "query", "i": rng.randrange(16), "q": rng.randrange(16), "unit": rng.randrange(len(UNITS))})
            elif k in ("add", "iadd", "pubadd"):
                ops.append({"op": k, "i": rng.randrange(16), "j": rng.randrange(16)})
            elif k == "addctx":
                ops.append({"op": "add", "i": rng.randrange(16), "j": rng.randrange(16), "unit": rng.randrange(len(UNITS))})
            elif k == "selfadd":
                ops.append({"op": "selfadd", "i": rng.randrange(16), "inplace": rng.random() < 0.5})
            else:
                ops.append({"op": k, "i": rng.randrange(16)})
        return {"kf_zone": kf, "naxis": rng.choice([200, 400, 1000]), "ops": ops}

    def _gen_new(self, rng, kf, sdrun):
        kind = "sd" if (sdrun and rng.random() < 0.7) else "cf"
        types = (CF_TYPES if kind == "cf" else SD_TYPES) + ((KF_CF_TYPES if kind == "cf" else KF_SD_TYPES) if kf else [])
        return {"op": "new", "kind": kind, "type": rng.randrange(len(types)) if not kf else rng.randrange(len(types)),
                "unit": rng.randrange(len(UNITS)), "axis": rng.choice([0, 0, 0, 0, 1, 1, 2, 3]), "T": rng.choice([0, 0, 0, 1]) if kind == "cf" else rng.choice([0, 1]),
                "reorg": round(rng.uniform(5, 100), 3), "cortime": round(rng.uniform(30, 300), 2),
                "freq": round(rng.uniform(100, 800), 2), "gamma": round(rng.uniform(5, 50), 3),
                "matsubara": rng.choice([None, 5, 20]), "template": rng.random() < 0.25}

    def run(self, program, ctx):
        Runner(program, ctx).go()

    def crude_signature(self, program, oracle):
        ops = program["ops"]
        return "%s|kf=%s|sd=%s|ctx=%s" % (oracle, program.get("kf_zone"), any(o.get("kind") == "sd" for o in ops),
                                          any(o["op"] == "add" and o.get("unit") for o in ops))

    def matches_finding(self, entry, program, oracle):
        need = entry.get("needs", {})
        if need.get("kf_zone") and not program.get("kf_zone"):
            return False
        return True

    def simplify(self, program):
        if program["naxis"] > 200:
            yield dict(program, naxis=200)
        ops = program["ops"]
        for i, op in enumerate(ops):
            for key in ("unit", "axis", "T", "i", "j", "q"):
                if op.get(key):
                    new = list(ops)
                    new[i] = dict(op, **{key: 0})
                    yield dict(program, ops=new)
            if op["op"] == "new" and op.get("matsubara") is not None:
                new = list(ops)
                new[i] = dict(op, matsubara=None)
                yield dict(program, ops=new)


class Runner:
    def __init__(self, program, ctx):
        import quantarhei as qr
        self.qr = qr
        self.m = qr.Manager()
        self.program = program
        self.ctx = ctx
        self.kf = program["kf_zone"]
        n = program["naxis"]
        # axes 0 and 1 are different objects with equal values, axis 2 differs
        # the same length with another step: only the library's own axis comparison can tell it apart
        self.axes = [qr.TimeAxis(0.0, n, 1.0), qr.TimeAxis(0.0, n, 1.0), qr.TimeAxis(0.0, n // 2, 2.0), qr.TimeAxis(0.0, n, 2.0)]
        self.pool = []
        self.fresh = {}
        self.good_adds = 0
        self.same_numbers = []
        self.templates = {}      # the caller's own parameter dictionaries, re-used (and edited) between constructions

    # ---------------------------------------------------------------- model
    def types(self, kind):
        base = CF_TYPES if kind == "cf" else SD_TYPES
        extra = (KF_CF_TYPES if kind == "cf" else KF_SD_TYPES) if self.kf else []
        return base + extra

    def fresh_component(self, kind, axis_id, spec):
        key = (kind, axis_id, tuple(sorted(spec.items())))
        if key not in self.fresh:
            qr = self.qr
            cls = qr.CorrelationFunction if kind == "cf" else qr.SpectralDensity
            with qr.energy_units("int"):
                o = cls(self.axes[axis_id], dict(spec))
            self.fresh[key] = (numpy.array(o.data).copy(), float(o.lamb))
        return self.fresh[key]

    def expected(self, e):
        tot = None
        lamb = 0.0
        for c in e.comps:
            if c[0] == "spec":
                d, l = self.fresh_component(e.kind, AXGROUP[e.axis], c[1])
            else:
                d, l = c[1], c[2]
            tot = d.copy() if tot is None else tot + d
            lamb += l
        return tot, lamb

    def check_entry(self, n, e, what):
        exp, lamb = self.expected(e)
        got = numpy.array(e.real.data)
        sc = float(numpy.max(numpy.abs(exp))) if exp.size else 1.0
        check(close(got, exp, rtol=RT, scale=sc), "sum-data-equals-sum-of-components",
              lambda: "%s: entry #%d (%s, components %s): data differ from the sum of freshly built components: %s"
              % (what, n, e.kind, [c[1].get("ftype") if c[0] == "spec" else "values" for c in e.comps], maxdiff(got, exp)))
        check(abs(e.real.lamb - lamb) <= RT * max(abs(lamb), 1e-300), "sum-reorganisation-energy",
              lambda: "%s: entry #%d (%s, components %s): lamb %r, sum of the components' %r"
              % (what, n, e.kind, [c[1].get("ftype") if c[0] == "spec" else "values" for c in e.comps], e.real.lamb, lamb))
        with self.qr.energy_units("int"):
            ge = e.real.get_reorganization_energy()
        check(abs(ge - lamb) <= RT * max(abs(lamb), 1e-300), "sum-reorganisation-energy",
              lambda: "%s: entry #%d get_reorganization_energy() %r vs %r" % (what, n, ge, lamb))
        if e.kind == "cf":
            check(e.real.temperature == e.T, "temperature-kept",
                  lambda: "%s: entry #%d temperature %r, expected %r" % (what, n, e.real.temperature, e.T))

    def check_all(self, what):
        for n, e in enumerate(self.pool):
            if e.alive:
                self.check_entry(n, e, what)

    def pick(self, k, pred=lambda e: True):
        cand = [n for n, e in enumerate(self.pool) if e.alive and pred(e)]
        if not cand:
            return None
        return cand[k % len(cand)]

    def add_entry(self, kind, real, comps, T, axis):
        e = Entry()
        e.kind, e.real, e.comps, e.T, e.axis, e.alive = kind, real, comps, T, axis, True
        self.pool.append(e)
        return len(self.pool) - 1

    # ---------------------------------------------------------------- interpreter
    def go(self):
        self.ctx.ev("cfg", self.kf, self.program["naxis"])
        for i, op in enumerate(self.program["ops"]):
            self.ctx.step()
            units_before = self.m.get_current_units("energy")
            getattr(self, "op_" + op["op"])(i, op)
            check(self.m.get_current_units("energy") == units_before, "units-restored", "op %d changed the active units" % i)
            self.check_all("after op %d (%s)" % (i, op["op"]))
        self.ctx.nontrivial = self.good_adds >= 1

    def op_new(self, i, op):
        qr = self.qr
        kind = op["kind"]
        types = self.types(kind)
        ftype = types[op["type"] % len(types)]
        u = UNITS[op["unit"] % len(UNITS)]
        T = [300, 77][op["T"]]
        raw = {"ftype": ftype, "T": T, "reorg": op["reorg"]}
        if ftype.startswith("Overdamped"):
            raw["cortime"] = op["cortime"]
            if op.get("matsubara") is not None and ftype == "OverdampedBrownian":
                raw["matsubara"] = op["matsubara"]
        elif ftype in ("UnderdampedBrownian", "Underdamped"):
            raw["freq"] = op["freq"]
            raw["gamma"] = op["gamma"]
        # the numbers are meant in 1/cm; express them in the construction unit with the library's own conversion
        given = dict(raw)
        if op.get("palette") is not None:
            # ... or the very same numbers are meant in whatever unit is active (a parameter set from a table)
            given.update(PALETTE[op["palette"] % len(PALETTE)])
            given = {k: v for k, v in given.items() if k in raw}
            sig = (kind, ftype, op["palette"] % len(PALETTE), T, AXGROUP[op["axis"]])
            if any(s == sig and uu != u for s, uu in self.same_numbers):
                self.ctx.probe("same_numbers_under_different_units")
            self.same_numbers.append((sig, u))
        else:
            for k in ENERGY_KEYS:
                if k in given:
                    given[k] = float(qr.convert(raw[k], "1/cm", to=u))
        cls = qr.CorrelationFunction if kind == "cf" else qr.SpectralDensity
        ax = op["axis"]
        if op.get("template"):
            # the usual way of making several components: one dictionary, edited and handed over again
            tmpl = self.templates.setdefault(kind, {})
            tmpl.clear()
            tmpl.update(given)
            handed = tmpl
            self.ctx.probe("template_dict_reused")
        else:
            handed = dict(given)
        try:
            with qr.energy_units(u):
                obj = cls(self.axes[ax], handed)
                spec = dict(given)
                for k in ENERGY_KEYS:
                    if k in spec:
                        spec[k] = float(self.m.convert_energy_2_internal_u(given[k]))
        except Exception as e:
            raise Violation("construction-raises", "op %d: %s(%s) under %r: %s: %s" % (i, cls.__name__, given, u, type(e).__name__, e))
        if u not in ("int", "1/fs"):
            self.ctx.probe("constructed_under_units")
        n = self.add_entry(kind, obj, [("spec", spec)], T, ax)
        self.ctx.ev(i, "new", kind, ftype, u, ax, T, n)
        self.ctx.cov("new", kind, ftype, u, ax, T)

    def _do_add(self, i, a, b, inplace, unit=None):
        qr = self.qr
        A, B = self.pool[a], self.pool[b]
        same_axis = AXGROUP[A.axis] == AXGROUP[B.axis]
        same_T = (A.kind != "cf") or (A.T == B.T)
        expect_refusal = (not same_axis) or (not same_T)
        u = None if unit is None else UNITS[unit % len(UNITS)]
        try:
            if u is not None:
                with qr.energy_units(u):
                    if inplace:
                        A.real += B.real
                        res = A.real
                    else:
                        res = A.real + B.real
                self.ctx.probe("add_inside_units_context") if u not in ("int", "1/fs") else None
            else:
                if inplace:
                    A.real += B.real
                    res = A.real
                else:
                    res = A.real + B.real
            raised = None
        except Exception as e:
            raised = e
        if expect_refusal:
            if not same_T:
                self.ctx.fault("different_temperature")
                self.ctx.probe("refused_temperature")
            if not same_axis:
                self.ctx.fault("different_axis")
                self.ctx.probe("refused_axis")
            check(raised is not None, "inadmissible-addition-accepted",
                  lambda: "op %d: addition of entries #%d (T=%s, axis %d) and #%d (T=%s, axis %d) was accepted"
                  % (i, a, A.T, A.axis, b, B.T, B.axis))
            if inplace:
                A.alive = False
            self.ctx.ev(i, "add", a, b, inplace, "refused")
            self.ctx.cov("add", A.kind, inplace, "refused", same_axis, same_T)
            return
        if raised is not None:
            raise Violation("addition-raises", "op %d: entries #%d %s #%d: %s: %s"
                            % (i, a, "+=" if inplace else "+", b, type(raised).__name__, raised))
        comps = list(A.comps) + list(B.comps)
        if inplace:
            A.comps = comps
            n = a
            self.ctx.probe("inplace_add")
        else:
            n = self.add_entry(A.kind, res, comps, A.T, A.axis)
        tps = set(c[1]["ftype"] if c[0] == "spec" else "values" for c in comps)
        if len(tps) >= 2:
            self.ctx.probe("mixed_types_sum")
        if len(A.comps) >= 2 and not inplace and len(B.comps) == 1 and len(comps) >= 3:
            self.ctx.probe("three_component_grouping_left")
        if len(B.comps) >= 2 and len(comps) >= 3:
            self.ctx.probe("three_component_grouping_right")
        if len(A.comps) >= 2 and len(B.comps) >= 2:
            self.ctx.probe("sum_of_sums")
        if A.kind == "sd":
            self.ctx.probe("spectral_density_sum")
        if any(c[0] == "values" for c in B.comps):
            self.ctx.probe("value_defined_right_operand")
        if len(tps) >= 2 or len(comps) >= 3:
            self.good_adds += 1
        self.ctx.ev(i, "add", a, b, inplace, u, n, sorted(tps), len(comps))
        self.ctx.cov("add", A.kind, inplace, u is not None and u not in ("int", "1/fs"), tuple(sorted(tps)),
                     min(len(A.comps), 3), min(len(B.comps), 3))

    def op_add(self, i, op):
        a = self.pick(op["i"], lambda e: not any(c[0] == "values" for c in e.comps))
        if a is None:
            return
        kind = self.pool[a].kind
        b = self.pick(op["j"], lambda e: e.kind == kind)
        if b is None:
            return
        self._do_add(i, a, b, False, op.get("unit"))

    def op_iadd(self, i, op):
        a = self.pick(op["i"], lambda e: not any(c[0] == "values" for c in e.comps))
        if a is None:
            return
        kind = self.pool[a].kind
        b = self.pick(op["j"], lambda e: e.kind == kind)
        if b is None or b == a:
            return
        self._do_add(i, a, b, True)

    def op_pubadd(self, i, op):
        """a.add_to_data(b): the public in-place addition that does not rebuild a"""
        a = self.pick(op["i"], lambda e: not any(c[0] == "values" for c in e.comps))
        if a is None:
            return
        kind = self.pool[a].kind
        b = self.pick(op["j"], lambda e: e.kind == kind)
        if b is None or b == a:
            return
        A, B = self.pool[a], self.pool[b]
        same_axis = AXGROUP[A.axis] == AXGROUP[B.axis]
        same_T = (A.kind != "cf") or (A.T == B.T)

        def measurable(E):
            return (E.kind == "cf" and E.axis in (0, 1) and all(c[0] == "spec" and c[1]["ftype"].startswith("Overdamped") for c in E.comps)
                    and max(c[1]["cortime"] for c in E.comps) * 8 <= self.axes[0].max)
        if measurable(A):
            # the function is measured before it grows (and again afterwards, below)
            with self.qr.energy_units("int"):
                A.real.measure_reorganization_energy()
        try:
            A.real.add_to_data(B.real)
            raised = None
        except Exception as e:
            raised = type(e).__name__
        if not (same_axis and same_T):
            check(raised is not None, "inadmissible-addition-accepted", "op %d: add_to_data of entries #%d and #%d was accepted" % (i, a, b))
            A.alive = False
            self.ctx.ev(i, "pubadd", a, b, "refused")
            return
        if raised is not None:
            raise Violation("addition-raises", "op %d: add_to_data: %s" % (i, raised))
        A.comps = list(A.comps) + list(B.comps)
        if measurable(A):
            with self.qr.energy_units("int"):
                m = A.real.measure_reorganization_energy()
            lamb = self.expected(A)[1]
            check(abs(m - lamb) <= 4e-3 * abs(lamb), "measured-reorganisation-energy",
                  lambda: "op %d: entry #%d measured %r after add_to_data, declared %r" % (i, a, m, lamb))
            self.ctx.probe("measured_before_and_after_public_addition")
        self.ctx.probe("public_add_to_data")
        self.ctx.ev(i, "pubadd", a, b)
        self.ctx.cov("pubadd", A.kind, min(len(A.comps), 4))

    def op_selfadd(self, i, op):
        a = self.pick(op["i"], lambda e: not any(c[0] == "values" for c in e.comps))
        if a is None:
            return
        self.ctx.probe("self_add")
        self._do_add(i, a, a, bool(op["inplace"]))

    def op_copy(self, i, op):
        a = self.pick(op["i"], lambda e: not any(c[0] == "values" for c in e.comps))
        if a is None:
            return
        A = self.pool[a]
        try:
            new = A.real.copy()
        except Exception as e:
            raise Violation("copy-raises", "op %d: %s: %s" % (i, type(e).__name__, e))
        n = self.add_entry(A.kind, new, list(A.comps), A.T, A.axis)
        if len(A.comps) >= 2:
            self.ctx.probe("copy_of_composite")
        self.ctx.ev(i, "copy", a, n)
        self.ctx.cov("copy", A.kind, min(len(A.comps), 3))

    def op_query(self, i, op):
        """Read-only requests (transforms with and without a window, conversions, interpolation, getters) on one entry,
        possibly inside a units context: whatever they return, every entry of the pool must still be the sum of its components."""
        a = self.pick(op["i"])
        if a is None:
            return
        qr = self.qr
        A = self.pool[a]
        q = QUERIES[op["q"] % len(QUERIES)]
        u = UNITS[op["unit"] % len(UNITS)]
        f = A.real
        ax = self.axes[A.axis]

        def call():
            if q == "ft_window":
                if A.kind != "cf":
                    return f.get_reorganization_energy()
                win = qr.DFunction(ax, numpy.exp(-(numpy.array(ax.data) / (0.3 * ax.max + 1.0)) ** 2))
                self.ctx.probe("windowed_transform_query")
                return f.get_Fourier_transform(window=win)
            if q == "ft":
                return f.get_Fourier_transform() if A.kind == "cf" else f.get_inverse_Fourier_transform()
            if q == "ift_of_ft":
                return f.get_Fourier_transform().get_inverse_Fourier_transform() if A.kind == "cf" else f.get_reorganization_energy()
            if q == "ftcf":
                return f.get_FTCorrelationFunction() if A.kind == "cf" else f.get_FTCorrelationFunction(temperature=300)
            if q == "sd_or_cf":
                return f.get_SpectralDensity() if A.kind == "cf" else f.get_CorrelationFunction(temperature=300)
            if q == "even":
                return f.get_EvenFTCorrelationFunction() if A.kind == "cf" else f.get_temperature()
            if q == "odd":
                return f.get_OddFTCorrelationFunction() if A.kind == "cf" else f.get_temperature()
            if q == "at":
                x = float(f.axis.data[min(3, f.axis.length - 1)])
                return (f.at(x), f.at(x + 0.25 * f.axis.step), f.at(x, approx="spline"))
            if q == "measure":
                return f.measure_reorganization_energy()
            if q == "getters":
                out = []
                for nm in ("get_reorganization_energy", "get_temperature", "is_analytical", "get_correlation_time"):
                    try:
                        out.append(getattr(f, nm)())
                    except Exception:
                        out.append(None)
                return out
            if q == "copy_drop":
                c = f.copy()
                c.data[:] = 0.0          # the caller does what it likes with its copy
                return None
            raise HarnessError("unknown query " + q)
        try:
            with qr.energy_units(u):
                call()
            raised = None
        except HarnessError:
            raise
        except Exception as e:
            raised = type(e).__name__
        self.ctx.probe("query_inside_units_context") if u not in ("int", "1/fs") else None
        self.ctx.ev(i, "query", a, q, u, raised)
        self.ctx.cov("query", A.kind, q, raised, min(len(A.comps), 3))

    def op_newlist(self, i, op):
        """A composite built in one go from a list of parameter sets: equal temperatures give the sum, temperatures that
        differ (by a lot or by less than a percent) are refused."""
        qr = self.qr
        u = UNITS[op["unit"] % len(UNITS)]
        specs, given = [], []
        Ts = {"same": (300, 300), "close": (300, 302), "far": (300, 77)}[op["tcase"]]
        for sub, T in zip((op["a"], op["b"]), Ts):
            ftype = CF_TYPES[sub["type"] % len(CF_TYPES)]
            raw = {"ftype": ftype, "T": T, "reorg": sub["reorg"]}
            if ftype.startswith("Overdamped"):
                raw["cortime"] = sub["cortime"]
            else:
                raw["freq"] = sub["freq"]
                raw["gamma"] = sub["gamma"]
            g = dict(raw)
            for k in ENERGY_KEYS:
                if k in g:
                    g[k] = float(qr.convert(raw[k], "1/cm", to=u))
            given.append(g)
        try:
            with qr.energy_units(u):
                obj = qr.CorrelationFunction(self.axes[0], [dict(g) for g in given])
                for g in given:
                    sp = dict(g)
                    for k in ENERGY_KEYS:
                        if k in sp:
                            sp[k] = float(self.m.convert_energy_2_internal_u(g[k]))
                    specs.append(sp)
            raised = None
        except Exception as e:
            raised = e
        if op["tcase"] != "same":
            self.ctx.fault("different_temperature")
            if op["tcase"] == "close":
                self.ctx.probe("temperatures_differing_by_less_than_a_percent")
            check(raised is not None, "inadmissible-addition-accepted",
                  lambda: "op %d: a composite of components at %r K was accepted" % (i, Ts))
            self.ctx.ev(i, "newlist", op["tcase"], "refused")
            return
        if raised is not None:
            raise Violation("construction-raises", "op %d: list of parameter sets %r under %r: %s: %s" % (i, given, u, type(raised).__name__, raised))
        n = self.add_entry("cf", obj, [("spec", sp) for sp in specs], 300, 0)
        self.good_adds += 1
        self.ctx.probe("composite_from_a_list_of_parameter_sets")
        self.ctx.ev(i, "newlist", "same", n, u)
        self.ctx.cov("newlist", u, tuple(sp["ftype"] for sp in specs))

    def op_sdtocf(self, i, op):
        """A spectral density converted to a correlation function: with components declared at different temperatures
        and no temperature given, the request is refused (the result would be a sum at mixed temperatures)."""
        a = self.pick(op["i"], lambda e: e.kind == "sd" and all(c[0] == "spec" for c in e.comps))
        if a is None:
            return
        A = self.pool[a]
        Ts = set(c[1]["T"] for c in A.comps)
        try:
            if op.get("explicit"):
                cf = A.real.get_CorrelationFunction(temperature=300)
            else:
                cf = A.real.get_CorrelationFunction()
            raised = None
        except Exception as e:
            raised = e
        if len(Ts) > 1 and not op.get("explicit"):
            self.ctx.fault("different_temperature")
            self.ctx.probe("mixed_temperature_density_converted_without_temperature")
            check(raised is not None, "inadmissible-addition-accepted",
                  lambda: "op %d: a spectral density with components declared at %r K was converted to a correlation function "
                  "at %r K without a temperature being given" % (i, sorted(Ts), None if raised else cf.get_temperature()))
        self.ctx.ev(i, "sdtocf", a, bool(op.get("explicit")), raised is None)
        self.ctx.cov("sdtocf", len(Ts), bool(op.get("explicit")), raised is None)

    def op_sdfromcf(self, i, op):
        """A spectral density obtained numerically from a correlation function (cf.get_SpectralDensity()): a legal
        right-hand operand whose data are what they are, not what its parameters would give."""
        a = self.pick(op["i"], lambda e: e.kind == "cf" and e.axis in (0, 1) and all(c[0] == "spec" and c[1]["ftype"] == "OverdampedBrownian" for c in e.comps))
        if a is None:
            return
        A = self.pool[a]
        try:
            sd = A.real.get_SpectralDensity()
        except Exception as e:
            raise Violation("conversion-raises", "op %d: get_SpectralDensity: %s: %s" % (i, type(e).__name__, e))
        data = numpy.array(sd.data).copy()
        lamb = float(sd.lamb)
        n = self.add_entry("sd", sd, [("values", data, lamb)], A.T, A.axis)
        self.ctx.probe("numerical_spectral_density_operand")
        self.ctx.ev(i, "sdfromcf", a, n)
        self.ctx.cov("sdfromcf", min(len(A.comps), 3))

    def op_cfm(self, i, op):
        """Functions (sums included) handed to a CorrelationFunctionMatrix inside a units context: the matrix must report
        the function's data and the sum of the components' reorganisation energies."""
        from quantarhei.qm.corfunctions.cfmatrix import CorrelationFunctionMatrix
        qr = self.qr
        a = self.pick(op["i"], lambda e: e.kind == "cf")
        if a is None:
            return
        A = self.pool[a]
        b = self.pick(op["j"], lambda e: e.kind == "cf" and e.T == A.T and AXGROUP[e.axis] == AXGROUP[A.axis])
        B = self.pool[b] if b is not None else A
        u, u2 = UNITS[op["unit"] % len(UNITS)], UNITS[op["unit2"] % len(UNITS)]
        try:
            with qr.energy_units(u):
                cfm = CorrelationFunctionMatrix(self.axes[A.axis], nob=2)
                cfm.set_correlation_function(A.real, [(0, 0)])
                cfm.set_correlation_function(B.real, [(1, 1)])
            with qr.energy_units(u2):
                got = [cfm.get_reorganization_energy(0, 0), cfm.get_reorganization_energy(1, 1)]
                exp = [float(self.m.convert_energy_2_current_u(self.expected(A)[1])), float(self.m.convert_energy_2_current_u(self.expected(B)[1]))]
                c0 = numpy.array(cfm.get_coft(0, 0))
        except Violation:
            raise
        except Exception as e:
            raise Violation("matrix-raises", "op %d: CorrelationFunctionMatrix under %r: %s: %s" % (i, u, type(e).__name__, e))
        for g, x in zip(got, exp):
            check(abs(g - x) <= 1e-9 * max(abs(x), 1e-300), "sum-reorganisation-energy",
                  lambda: "op %d: matrix filled under %r reports reorganisation energy %r under %r, the components' sum is %r" % (i, u, g, u2, x))
        ex = self.expected(A)[0]
        check(close(c0, ex, rtol=RT, scale=float(numpy.max(numpy.abs(ex)))), "sum-data-equals-sum-of-components",
              lambda: "op %d: matrix element (0,0): %s" % (i, maxdiff(c0, ex)))
        if u not in ("int", "1/fs"):
            self.ctx.probe("matrix_filled_inside_units_context")
        self.ctx.ev(i, "cfm", a, b, u, u2)
        self.ctx.cov("cfm", u not in ("int", "1/fs"), min(len(A.comps), 3))

    def op_valdef(self, i, op):
        a = self.pick(op["i"], lambda e: e.kind == "cf")
        if a is None:
            return
        qr = self.qr
        A = self.pool[a]
        data = numpy.array(A.real.data).copy()
        lamb = float(A.real.lamb)
        u = UNITS[op.get("unit", 0) % len(UNITS)]
        with qr.energy_units(u):
            try:
                new = qr.CorrelationFunction(self.axes[A.axis], dict(ftype="Value-defined", reorg=float(self.m.convert_energy_2_current_u(lamb)), T=A.T),
                                             values=data.copy())
            except Exception as e:
                raise Violation("construction-raises", "op %d: value-defined under %r: %s: %s" % (i, u, type(e).__name__, e))
        if u not in ("int", "1/fs"):
            self.ctx.probe("value_defined_function_built_under_units")
        n = self.add_entry("cf", new, [("values", data, lamb)], A.T, A.axis)
        self.ctx.ev(i, "valdef", a, n)
        self.ctx.cov("valdef", min(len(A.comps), 3))

    def op_measure(self, i, op):
        a = self.pick(op["i"], lambda e: e.kind == "cf" and all(c[0] == "spec" and c[1]["ftype"].startswith("Overdamped") for c in e.comps)
                      and e.axis in (0, 1))
        if a is None:
            return
        A = self.pool[a]
        # only meaningful when the axis is long enough for the slowest component
        if max(c[1]["cortime"] for c in A.comps) * 8 > self.axes[0].max:
            return
        with self.qr.energy_units("int"):
            m = A.real.measure_reorganization_energy()
        lamb = self.expected(A)[1]
        check(abs(m - lamb) <= 4e-3 * abs(lamb), "measured-reorganisation-energy",
              lambda: "op %d: entry #%d measured %r, declared %r" % (i, a, m, lamb))
        check(bool(A.real.reorganization_energy_consistent(rtol=4e-3)), "measured-reorganisation-energy",
              "op %d: reorganization_energy_consistent() is False" % i)
        self.ctx.probe("measure_checked")
        self.ctx.ev(i, "measure", a)
        self.ctx.cov("measure", min(len(A.comps), 3))

    def op_evenodd(self, i, op):
        a = self.pick(op["i"], lambda e: e.kind == "cf" and all(c[0] == "spec" and c[1]["ftype"].startswith("Overdamped") for c in e.comps))
        if a is None:
            return
        A = self.pool[a]
        try:
            ev = A.real.get_EvenFTCorrelationFunction()
            od = A.real.get_OddFTCorrelationFunction()
        except Exception as e:
            raise Violation("evenodd-raises", "op %d: %s: %s" % (i, type(e).__name__, e))
        w = numpy.array(ev.axis.data)
        for name, f, sgn in (("even", ev, 1.0), ("odd", od, -1.0)):
            d = numpy.array(f.data)
            # compare f(w) with sgn * f(-w) on the points that have a mirror image on the axis
            idx = numpy.arange(w.size)
            mirror = numpy.array([int(numpy.argmin(numpy.abs(w + x))) for x in w])
            ok = numpy.abs(w[mirror] + w) < 1e-9 * max(1.0, numpy.max(numpy.abs(w)))
            sc = float(numpy.max(numpy.abs(d)))
            check(numpy.all(numpy.abs(d[idx][ok] - sgn * d[mirror][ok]) <= 1e-9 * sc), "even-odd-parity",
                  lambda: "op %d: the %s Fourier part of entry #%d is not %s in frequency" % (i, name, a, name))
        self.ctx.probe("even_odd_checked")
        self.ctx.ev(i, "evenodd", a)
        self.ctx.cov("evenodd", min(len(A.comps), 3))
