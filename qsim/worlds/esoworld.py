# -*- coding: utf-8 -*-
"""C08 -- evolution superoperator: identity start, semigroup, mode equivalence.

Real code: EvolutionSuperOperator (modes "all" and "jit", save on/off),
ReducedDensityMatrixPropagator, LindbladForm in tensor and operator form,
secularised tensors, Redfield tensors from the open-system builder (with RWA).
Reference model: the Liouvillian matrix assembled with einsum from H and the
tensor (never through quantarhei), U_ref(t) = scipy.linalg.expm(L t), and an
explicit remainder bound of the order-4 expansion per dense step.
"""
import numpy
import scipy.linalg

from ..core import Violation, HarnessError, check, close, maxdiff, fingerprint

EQ = 1e-11


class World:
    name = "esoworld"
    prop_id = "C08"
    level = "exploration"
    quick_runs = 1500
    thorough_budget_s = 900
    run_timeout = 180.0
    probe_min_runs = 600
    required_probes = ["jit_equals_all", "recalculate_after_dense_change", "next_past_grid", "refused_mode_misuse",
                       "apply_single_time", "apply_time_axis", "operator_form_tensor", "secular_tensor",
                       "redfield_tensor_rwa", "semigroup_checked", "dense_gt_1", "save_mode_jit", "at_checked", "apply_inside_context", "jit_step_inside_context", "apply_inside_complex_context",
                       "propagator_reused_without_refinement_argument", "apply_window_not_starting_at_zero",
                       "calculate_twice", "generator_changed_between_calculations", "calculated_with_pure_dephasing",
                       "jit_steps_with_pure_dephasing", "propagator_used_with_gaussian_dephasing_first",
                       "apply_with_pure_dephasing", "second_jit_object_created_after_steps_of_the_first",
                       "two_jit_objects_stepped_alternately", "apply_to_real_typed_state", "apply_to_state_sharing_its_array",
                       "calculated_inside_context", "rwa_round_trip", "builder_propagator_with_secular_relaxation"]
    required_faults = ["mode_misuse", "refused_dense_setting"]
    components = {
        "real": ["EvolutionSuperOperator: set_dense_dt, calculate, calculate_next(save), at, apply (single time, time axis)",
                 "ReducedDensityMatrixPropagator (tensor and operator form)", "LindbladForm, RelaxationTensor.secularize, "
                 "OpenSystem.get_RelaxationTensor('stR') with RWA Hamiltonian"],
        "stub": [],
        "reference_model": ["Liouvillian assembled with einsum; scipy.linalg.expm; Taylor remainder bound; with pure dephasing the "
                            "per-dense-step splitting exp(-gamma d) o expm(L d) the library documents"],
    }
    assumptions = [
        "scipy.linalg.expm is exact to 1e-12 relative for the <=16x16 Liouvillians used",
        "truncation bound per dense step: (||L|| d)^5/5! e^{||L|| d}, accumulated linearly with growth (1+r)^n and a factor 4 N",
        "changing the dense step of a jit superoperator after its first step is not generated (the first-interval propagator is a setting)",
        "with a rotating-wave Hamiltonian the superoperator is compared in the rotating frame it is computed in",
    ]
    rule = ("run = one system (dim 2..4; Lindblad tensor / operator form / secularised / Redfield+RWA), one time grid and a seeded history "
            "of set_dense_dt (also refused settings), set_PureDephasing (Lorentzian dephasing added/removed between calculations, "
            "the dephasing object possibly converted from a Gaussian one already used by the kept propagator), calculate, "
            "calculate_next(save), at, apply, recalculation and refused mode misuse on an 'all' and a "
            "'jit' superoperator sharing the generator; after every op identity-at-zero, semigroup, trace/Hermiticity, "
            "agreement with a fresh propagator, jit==all and the expm bound are checked; non-trivial = >=1 calculate and >=2 "
            "jit steps; distinct = distinct event-log digests among non-trivial runs")

    def gen(self, rng, tier):
        N = rng.choice([2, 2, 3, 3, 4])
        kind = rng.choice(["lind_tensor", "lind_tensor", "lind_ops", "secular", "redfield", "redfield_secular"])
        Nt = rng.choice([5, 8, 13, 20, 40])
        dt = rng.choice([1.0, 2.0, 5.0, 10.0])
        ops = []
        n = rng.randint(4, 18)
        kinds = ["set_dense", "calculate", "next", "next", "next", "at", "apply", "apply", "misuse", "semigroup", "bad_dense"]
        # swarm member: Lorentzian pure dephasing added to (and removed from) the generator between calculations; the
        # PureDephasing object may start its life as a Gaussian one used by the directly propagating propagator
        pdeph = kind not in ("redfield", "redfield_secular") and rng.random() < 0.35
        gauss_first = pdeph and rng.random() < 0.5
        if pdeph:
            kinds = kinds + ["set_pdeph", "set_pdeph", "calculate", "apply"]
            if gauss_first:
                ops.append({"op": "gauss_propagate", "pay": rng.randrange(1 << 30)})
                ops.append({"op": "convert_pdeph"})
        for _ in range(n):
            k = rng.choice(kinds)
            if k == "bad_dense":
                ops.append({"op": "bad_dense", "n": rng.choice([0, -2, 2.5]), "which": rng.choice(["all", "jit"])})
                if rng.random() < 0.6:
                    ops.append({"op": "calculate"})
            elif k == "set_pdeph":
                ops.append({"op": "set_pdeph", "on": rng.random() < 0.75, "which": rng.choice(["all", "both", "both"])})
                if rng.random() < 0.7:
                    ops.append({"op": "calculate"})
            elif k == "set_dense":
                ops.append({"op": "set_dense", "n": rng.choice([1, 2, 3, 5, 10]), "which": rng.choice(["all", "jit", "both"])})
            elif k == "next":
                ops.append({"op": "next", "times": rng.choice([1, 1, 2, 3, 7]), "ctx": rng.random() < 0.25})
                if rng.random() < 0.3:
                    ops.append({"op": "next2", "times": rng.choice([1, 1, 2, 3])})
            elif k == "at":
                ops.append({"op": "at", "k": rng.randrange(64), "which": rng.choice(["all", "jit"])})
            elif k == "apply":
                ops.append({"op": "apply", "k": rng.randrange(64), "how": rng.choice(["single", "single", "axis", "list", "all", "array"]),
                            "copy": rng.random() < 0.5, "pay": rng.randrange(1 << 30), "ctx": rng.random() < 0.3,
                            "ctxkind": rng.choice(["ham", "ham", "complex"]), "first": rng.choice([0, 0, 1, 2]),
                            "target": rng.choice(["complex", "complex", "real", "shared"])})
            elif k == "calculate":
                ops.append({"op": "calculate", "ctx": rng.random() < 0.25})
                if rng.random() < 0.3:
                    ops.append({"op": "rwa_roundtrip"})
            else:
                ops.append({"op": k})
        return {"N": N, "kind": kind, "Nt": Nt, "dt": dt, "seed": rng.randrange(1 << 30),
                "jit_save": rng.random() < 0.4, "pdeph": pdeph, "gauss_first": gauss_first, "ops": ops}

    def run(self, program, ctx):
        Runner(program, ctx).go()

    def crude_signature(self, program, oracle):
        return "%s|%s" % (oracle, program["kind"])

    def matches_finding(self, entry, program, oracle):
        return False

    def simplify(self, program):
        if program["Nt"] > 5:
            yield dict(program, Nt=5)
        if program["N"] > 2 and program["kind"] not in ("redfield", "redfield_secular"):
            yield dict(program, N=2)
        if program["kind"] not in ("lind_tensor",):
            yield dict(program, kind="lind_tensor")
        if program["jit_save"]:
            yield dict(program, jit_save=False)
        if program.get("gauss_first"):
            yield dict(program, gauss_first=False)


class Runner:
    def __init__(self, program, ctx):
        import quantarhei as qr
        self.qr = qr
        self.p = program
        self.ctx = ctx

    # ---------------------------------------------------------------- system
    def build(self):
        qr = self.qr
        p = self.p
        g = numpy.random.Generator(numpy.random.PCG64(p["seed"]))
        self.time = qr.TimeAxis(0.0, p["Nt"], p["dt"])
        kind = p["kind"]
        self.builder_prop = None
        if kind in ("redfield", "redfield_secular"):
            from quantarhei.builders.aggregate_test import TestAggregate
            agg = TestAggregate(name="dimer-2-env" if p["N"] <= 3 else "trimer-2-env")
            agg.set_coupling_by_dipole_dipole()        # without coupling the Redfield tensor is pure dephasing only
            agg.build()
            ham = agg.get_Hamiltonian()
            ta = agg.get_SystemBathInteraction().TimeAxis
            if kind == "redfield_secular":
                # the same options through the two public entry points of the builder: tensor for the superoperator,
                # propagator for the direct propagation
                RT, ham = agg.get_RelaxationTensor(ta, relaxation_theory="stR", time_dependent=False, secular_relaxation=True)
                self.builder_prop = lambda axis: agg.get_ReducedDensityMatrixPropagator(axis, relaxation_theory="stR", secular_relaxation=True)
                self.ctx.probe("builder_propagator_with_secular_relaxation")
            else:
                RT, ham = agg.get_RelaxationTensor(ta, relaxation_theory="stR", time_dependent=False)
            self.ham, self.relt = ham, RT
            self.N = ham.dim
            self.ctx.probe("redfield_tensor_rwa") if ham.has_rwa else None
            Hm = numpy.array(ham.get_RWA_data() if ham.has_rwa else ham.data, dtype=float)
            R = numpy.array(RT.data, dtype=complex)
        else:
            N = p["N"]
            self.N = N
            a = g.uniform(-1, 1, size=(N, N)) * 0.02
            Hm = (a + a.T) / 2.0 + numpy.diag(numpy.sort(g.uniform(0.0, 0.15, size=N)))
            self.ham = qr.Hamiltonian(data=Hm.copy())
            from quantarhei.qm import LindbladForm, SystemBathInteraction
            ops, rates = [], []
            for _ in range(int(g.integers(1, 4))):
                i, j = int(g.integers(0, N)), int(g.integers(0, N))
                ops.append(qr.qm.ProjectionOperator(i, j, dim=N))
                rates.append(float(g.uniform(0.0005, 0.02)))
            sbi = SystemBathInteraction(sys_operators=ops, rates=rates)
            if kind == "lind_ops":
                self.relt = LindbladForm(self.ham, sbi, as_operators=True)
                self.ctx.probe("operator_form_tensor")
                ref = LindbladForm(self.ham, sbi, as_operators=False)
                R = numpy.array(ref.data, dtype=complex)
            else:
                self.relt = LindbladForm(self.ham, sbi, as_operators=False)
                if kind == "secular":
                    self.relt.secularize()
                    self.ctx.probe("secular_tensor")
                R = numpy.array(self.relt.data, dtype=complex)
        N = self.N
        I = numpy.eye(N)
        L = -1j * (numpy.einsum("ac,bd->abcd", Hm, I) - numpy.einsum("ac,db->abcd", I, Hm)) + R
        self.L = L.reshape(N * N, N * N)
        self.normL = float(numpy.linalg.norm(self.L, 2))
        self.pd = None
        self.gamma = None
        if p.get("pdeph"):
            from quantarhei.qm import PureDephasing
            gm = g.uniform(0.001, 0.03, size=(N, N))
            gm = (gm + gm.T) / 2.0
            numpy.fill_diagonal(gm, 0.0)
            if p.get("gauss_first"):
                # Gaussian rates (1/fs^2) chosen such that the converted Lorentzian rates are those of gm
                f = numpy.sqrt(numpy.log(2.0))
                self.pd = PureDephasing((gm / f) ** 2, dtype="Gaussian")
            else:
                self.pd = PureDephasing(gm.copy(), dtype="Lorentzian")
            self.gamma = gm

    def Uref(self, t, pd=False, dense=1):
        N = self.N
        if not pd:
            return scipy.linalg.expm(self.L * t).reshape(N, N, N, N)
        # the library adds pure dephasing by operator splitting: per dense step exp(L d), then exp(-gamma d) elementwise
        d = self.p["dt"] / dense
        n = int(round(t / d))
        step = numpy.exp(-self.gamma * d).reshape(N * N)[:, None] * scipy.linalg.expm(self.L * d)
        return numpy.linalg.matrix_power(step, n).reshape(N, N, N, N)

    def bound(self, k, dense):
        """|U(t_k) - expm| allowed for k grid steps each of `dense` sub-steps."""
        d = self.p["dt"] / dense
        a = self.normL * d
        r = a ** 5 / 120.0 * numpy.exp(a)
        n = k * dense
        return 4.0 * self.N * n * r * (1.0 + r) ** n + 1e-10

    # ---------------------------------------------------------------- checks
    def identity(self):
        N = self.N
        return numpy.einsum("ac,bd->abcd", numpy.eye(N), numpy.eye(N)).astype(complex)

    def check_U(self, U, k, dense, what, pd=False):
        N = self.N
        check(U.shape == (N, N, N, N), "shape", "%s: shape %r" % (what, U.shape))
        check(numpy.all(numpy.isfinite(U)), "finite", "%s: non-finite values" % what)
        tr = numpy.einsum("aacd->cd", U)
        check(close(tr, numpy.eye(N), rtol=0, atol=1e-10 * (1 + k)), "trace-preserved",
              lambda: "%s: sum_a U[a,a,c,d] differs from delta_cd: %s" % (what, maxdiff(tr, numpy.eye(N))))
        herm = numpy.conj(U) - numpy.transpose(U, (1, 0, 3, 2))
        check(float(numpy.max(numpy.abs(herm))) <= 1e-10 * (1 + k), "hermiticity-preserved",
              lambda: "%s: conj(U[a,b,c,d]) != U[b,a,d,c] by %g" % (what, numpy.max(numpy.abs(herm))))
        ref = self.Uref(k * self.p["dt"], pd, dense)
        err = float(numpy.max(numpy.abs(U - ref)))
        b = self.bound(k, dense)
        check(err <= b, "within-truncation-bound",
              lambda: "%s: |U - expm(L t)| = %g exceeds the bound %g (k=%d, dense=%d, ||L||=%g)" % (what, err, b, k, dense, self.normL))

    # ---------------------------------------------------------------- interpreter
    def go(self):
        qr = self.qr
        p = self.p
        self.build()
        ESO = qr.qm.EvolutionSuperOperator
        Nt = p["Nt"]
        self.ctx.ev("cfg", self.N, p["kind"], Nt, p["dt"], p["jit_save"])
        Uall = ESO(time=self.time, ham=self.ham, relt=self.relt, mode="all")
        Ujit = ESO(time=self.time, ham=self.ham, relt=self.relt, mode="jit")
        st = {"all_dense": 1, "jit_dense": 1, "all_calc": False, "all_calc_dense": None, "jit_now": 0, "ncalc": 0,
              "all_pd": False, "jit_pd": False, "all_calc_pd": False}
        self.st = st
        I = self.identity()
        # initial state: identity at time zero
        check(numpy.array_equal(numpy.array(Uall.data[0]), I), "identity-at-zero", "fresh 'all' superoperator")
        check(numpy.array_equal(numpy.array(Ujit.data), I), "identity-at-zero", "fresh 'jit' superoperator")
        jit_steps = 0
        for i, op in enumerate(p["ops"]):
            self.ctx.step()
            kind = op["op"]
            if kind == "set_dense":
                n = int(op["n"])
                if op["which"] in ("all", "both"):
                    Uall.set_dense_dt(n)
                    st["all_dense"] = n
                if op["which"] in ("jit", "both") and st["jit_now"] == 0:
                    Ujit.set_dense_dt(n)
                    st["jit_dense"] = n
                if n > 1:
                    self.ctx.probe("dense_gt_1")
                self.ctx.ev(i, kind, n, op["which"])
                self.ctx.cov(kind, n, op["which"], st["all_calc"])
            elif kind == "bad_dense":
                # a refused dense-step request (zero, negative or fractional number of sub-steps) must leave the object as it was
                tgt = Uall if op["which"] == "all" else Ujit
                before = (tgt.dense_time.length, tgt.dense_time.step, numpy.array(tgt.data).copy())
                try:
                    tgt.set_dense_dt(op["n"])
                    raised = None
                except Exception as e:
                    raised = e
                self.ctx.fault("refused_dense_setting")
                check(raised is not None, "bad-dense-accepted", "op %d: set_dense_dt(%r) was accepted" % (i, op["n"]))
                check((tgt.dense_time.length, tgt.dense_time.step) == before[:2] and numpy.array_equal(before[2], numpy.array(tgt.data)),
                      "refusal-changed-data", "op %d: refused set_dense_dt(%r) changed the object" % (i, op["n"]))
                self.ctx.ev(i, kind, op["n"], op["which"])
                self.ctx.cov(kind, op["n"], op["which"], st["all_calc"])
            elif kind == "gauss_propagate":
                # the directly propagating propagator is used with the (still Gaussian) dephasing object before that
                # object becomes Lorentzian; nothing is compared here, the run goes on with the same propagator
                if self.pd is None or self.pd.dtype != "Gaussian":
                    continue
                pr = self.propagator(True)
                gg = numpy.random.Generator(numpy.random.PCG64(op["pay"]))
                a = gg.uniform(-1, 1, size=(self.N, self.N))
                r0 = a @ a.T
                try:
                    rt = pr.propagate(qr.ReducedDensityMatrix(data=r0 / numpy.trace(r0)))
                except Exception as e:
                    raise Violation("propagate-raises", "op %d: %s: %s" % (i, type(e).__name__, e))
                check(numpy.all(numpy.isfinite(numpy.array(rt.data))), "finite", "op %d: propagation with Gaussian dephasing" % i)
                self.ctx.probe("propagator_used_with_gaussian_dephasing_first")
                self.ctx.ev(i, kind)
            elif kind == "convert_pdeph":
                if self.pd is None or self.pd.dtype != "Gaussian":
                    continue
                self.pd.convert_to("Lorentzian")
                check(self.pd.dtype == "Lorentzian" and close(numpy.array(self.pd.data), self.gamma, rtol=1e-12, atol=0),
                      "harness", "conversion of the dephasing rates")
                self.ctx.ev(i, kind)
            elif kind == "set_pdeph":
                if self.pd is None or self.pd.dtype != "Lorentzian":
                    continue
                val = self.pd if op["on"] else None
                Uall.set_PureDephasing(val)
                st["all_pd"] = bool(op["on"])
                if op["which"] == "both" and st["jit_now"] == 0:
                    Ujit.set_PureDephasing(val)
                    st["jit_pd"] = bool(op["on"])
                if st["all_calc"] and st["all_calc_pd"] != st["all_pd"]:
                    self.ctx.probe("generator_changed_between_calculations")
                self.ctx.ev(i, kind, op["on"], op["which"])
                self.ctx.cov(kind, op["on"], st["all_calc"], st["jit_now"] > 0)
            elif kind == "rwa_roundtrip":
                if not (st["all_calc"] and getattr(self.ham, "has_rwa", False)):
                    continue
                before = numpy.array(Uall.data).copy()
                try:
                    Uall.convert_from_RWA()
                    mid = numpy.array(Uall.data).copy()
                    Uall.convert_to_RWA(self.ham)
                except Exception as e:
                    raise Violation("rwa-conversion-raises", "op %d: %s: %s" % (i, type(e).__name__, e))
                after = numpy.array(Uall.data)
                check(close(after, before, rtol=0, atol=1e-12), "rwa-round-trip",
                      lambda: "op %d: convert_from_RWA(); convert_to_RWA(H) does not give the superoperator back: %s" % (i, maxdiff(after, before)))
                # in the standard frame the superoperator still composes and preserves the trace
                trm = numpy.einsum("taacd->tcd", mid)
                check(close(trm, numpy.broadcast_to(numpy.eye(self.N), trm.shape), rtol=0, atol=1e-10 * Nt), "trace-preserved",
                      "op %d: trace after convert_from_RWA" % i)
                self.ctx.probe("rwa_round_trip")
                self.ctx.ev(i, kind, fingerprint(after))
            elif kind == "calculate":
                try:
                    if op.get("ctx") and not getattr(self.ham, "has_rwa", False) and not st["all_pd"]:
                        # looked at and calculated inside the eigenbasis of the Hamiltonian, used outside afterwards
                        with qr.eigenbasis_of(self.ham):
                            numpy.array(Uall.data)
                            Uall.calculate()
                        self.ctx.probe("calculated_inside_context")
                    else:
                        Uall.calculate()
                except Exception as e:
                    raise Violation("calculate-raises", "op %d: %s: %s" % (i, type(e).__name__, e))
                if st["all_calc"]:
                    self.ctx.probe("calculate_twice")
                    if st["all_calc_dense"] != st["all_dense"]:
                        self.ctx.probe("recalculate_after_dense_change")
                st["all_calc"] = True
                st["all_calc_dense"] = st["all_dense"]
                st["all_calc_pd"] = st["all_pd"]
                if st["all_pd"]:
                    self.ctx.probe("calculated_with_pure_dephasing")
                st["ncalc"] += 1
                data = numpy.array(Uall.data)
                check(close(data[0], I, rtol=0, atol=1e-12), "identity-at-zero", "op %d: U(0) after calculate" % i)
                for k in range(Nt):
                    self.check_U(data[k], k, st["all_calc_dense"], "op %d: 'all' U(t_%d)" % (i, k), pd=st["all_calc_pd"])
                self.ctx.ev(i, kind, st["all_dense"], fingerprint(data))
                self.ctx.cov(kind, st["all_dense"], st["ncalc"] > 1)
            elif kind == "next":
                for _ in range(op["times"]):
                    k = st["jit_now"] + 1
                    if p["jit_save"] and k >= Nt:
                        # a saving jit superoperator has no room past its grid: refusal is fine, corruption is not
                        before = numpy.array(Ujit.data).copy()
                        try:
                            Ujit.calculate_next(save=True)
                            raised = None
                        except Exception as e:
                            raised = e
                        check(raised is not None, "step-past-grid-accepted", "op %d: saving step %d past the grid" % (i, k))
                        check(numpy.array_equal(before, numpy.array(Ujit.data)), "refusal-changed-data",
                              "op %d: refused step past the grid changed the data" % i)
                        self.ctx.probe("next_past_grid")
                        break
                    try:
                        if op.get("ctx") and not getattr(self.ham, "has_rwa", False) and not st["jit_pd"]:
                            # the step is requested inside the eigenbasis of the Hamiltonian; read outside afterwards
                            with qr.eigenbasis_of(self.ham):
                                Ujit.calculate_next(save=p["jit_save"])
                            self.ctx.probe("jit_step_inside_context")
                        else:
                            Ujit.calculate_next(save=p["jit_save"])
                    except Exception as e:
                        raise Violation("calculate-next-raises", "op %d: step %d: %s: %s" % (i, k, type(e).__name__, e))
                    st["jit_now"] = k
                    jit_steps += 1
                    if k >= Nt:
                        self.ctx.probe("next_past_grid")
                    if p["jit_save"]:
                        self.ctx.probe("save_mode_jit")
                        U = numpy.array(Ujit.data[k])
                        check(close(numpy.array(Ujit.data[0]), I, rtol=0, atol=1e-12), "identity-at-zero", "op %d: saved U(0)" % i)
                    else:
                        U = numpy.array(Ujit.data)
                    self.check_U(U, k, st["jit_dense"], "op %d: 'jit' after %d steps" % (i, k), pd=st["jit_pd"])
                    if st["jit_pd"]:
                        self.ctx.probe("jit_steps_with_pure_dephasing")
                    if st["all_calc"] and st["all_calc_dense"] == st["jit_dense"] and st["all_calc_pd"] == st["jit_pd"] and k < Nt:
                        A = numpy.array(Uall.data[k])
                        check(close(U, A, rtol=0, atol=1e-12 * (1 + k)), "jit-equals-all",
                              lambda: "op %d: jit after %d steps vs all[%d]: %s" % (i, k, k, maxdiff(U, A)))
                        self.ctx.probe("jit_equals_all")
                if getattr(self, "Ujit2", None) is not None and self.jit2_now >= 0:
                    self.check_U(numpy.array(self.Ujit2.data), self.jit2_now, 1,
                                 "op %d: the second 'jit' object (%d steps) after the first one moved" % (i, self.jit2_now))
                self.ctx.ev(i, kind, st["jit_now"], fingerprint(numpy.array(Ujit.data)))
                self.ctx.cov(kind, min(st["jit_now"], 8), p["jit_save"], st["jit_dense"])
            elif kind == "next2":
                # a SECOND step-by-step superoperator of the same generator, born after the first one may have moved
                if st["jit_pd"]:
                    continue
                if getattr(self, "Ujit2", None) is None:
                    self.Ujit2 = ESO(time=self.time, ham=self.ham, relt=self.relt, mode="jit")
                    self.jit2_now = 0
                    check(numpy.array_equal(numpy.array(self.Ujit2.data), I), "identity-at-zero",
                          "op %d: a 'jit' superoperator created after %d steps of another one is not the identity at time zero" % (i, st["jit_now"]))
                    if st["jit_now"] > 0:
                        self.ctx.probe("second_jit_object_created_after_steps_of_the_first")
                first_before = numpy.array(Ujit.data).copy()
                for _ in range(op["times"]):
                    try:
                        self.Ujit2.calculate_next()
                    except Exception as e:
                        raise Violation("calculate-next-raises", "op %d: second jit object: %s: %s" % (i, type(e).__name__, e))
                    self.jit2_now += 1
                    self.check_U(numpy.array(self.Ujit2.data), self.jit2_now, 1, "op %d: second 'jit' object after %d steps" % (i, self.jit2_now))
                check(numpy.array_equal(first_before, numpy.array(Ujit.data)), "other-object-changed",
                      "op %d: stepping the second jit superoperator changed the first one" % i)
                if st["jit_now"] > 0:
                    self.ctx.probe("two_jit_objects_stepped_alternately")
                self.ctx.ev(i, kind, self.jit2_now, fingerprint(numpy.array(self.Ujit2.data)))
                self.ctx.cov(kind, min(self.jit2_now, 6), min(st["jit_now"], 3))
            elif kind == "at":
                if op["which"] == "all":
                    if not st["all_calc"]:
                        continue
                    k = op["k"] % Nt
                    try:
                        S = Uall.at(float(self.time.data[k]))
                    except Exception as e:
                        raise Violation("at-raises", "op %d: %s: %s" % (i, type(e).__name__, e))
                    check(numpy.array_equal(numpy.array(S.data), numpy.array(Uall.data[k])), "at-returns-grid-value",
                          "op %d: at(t_%d) differs from data[%d]" % (i, k, k))
                    self.ctx.probe("at_checked")
                else:
                    if not (p["jit_save"] and st["jit_now"] >= 1):
                        continue
                    k = op["k"] % (min(st["jit_now"], Nt - 1) + 1)
                    try:
                        S = Ujit.at(float(self.time.data[k]))
                    except Exception as e:
                        raise Violation("at-raises", "op %d: %s: %s" % (i, type(e).__name__, e))
                    check(numpy.array_equal(numpy.array(S.data), numpy.array(Ujit.data[k])), "at-returns-grid-value",
                          "op %d: jit at(t_%d)" % (i, k))
                    self.ctx.probe("at_checked")
                self.ctx.ev(i, kind, op["which"], k)
                self.ctx.cov(kind, op["which"])
            elif kind == "apply":
                if not st["all_calc"]:
                    continue
                self.do_apply(i, op, Uall, st)
            elif kind == "semigroup":
                if not st["all_calc"]:
                    continue
                data = numpy.array(Uall.data)
                N = self.N
                M = data.reshape(Nt, N * N, N * N)
                worst = 0.0
                for a in range(Nt):
                    for b in range(Nt - a):
                        d = float(numpy.max(numpy.abs(M[a] @ M[b] - M[a + b])))
                        worst = max(worst, d)
                sc = max(1.0, float(numpy.max(numpy.abs(M))))
                check(worst <= 1e-10 * sc * Nt, "semigroup-on-grid",
                      lambda: "op %d: max |U(t_i)U(t_j) - U(t_i+j)| = %g" % (i, worst))
                self.ctx.probe("semigroup_checked")
                self.ctx.ev(i, kind)
                self.ctx.cov(kind, Nt)
            elif kind == "misuse":
                self.ctx.fault("mode_misuse")
                b1 = numpy.array(Ujit.data).copy()
                b2 = numpy.array(Uall.data).copy()
                r1 = r2 = None
                try:
                    Ujit.calculate()
                except Exception as e:
                    r1 = e
                try:
                    Uall.calculate_next()
                except Exception as e:
                    r2 = e
                check(r1 is not None and r2 is not None, "mode-misuse-accepted",
                      "op %d: calculate() in jit mode or calculate_next() in all mode was accepted" % i)
                check(numpy.array_equal(b1, numpy.array(Ujit.data)) and numpy.array_equal(b2, numpy.array(Uall.data)),
                      "refusal-changed-data", "op %d: refused mode misuse changed the data" % i)
                self.ctx.probe("refused_mode_misuse")
                self.ctx.ev(i, kind)
                self.ctx.cov(kind, st["all_calc"], st["jit_now"] > 0)
        self.ctx.nontrivial = st["ncalc"] >= 1 and jit_steps >= 2

    def propagator(self, with_pd):
        """ONE propagator without and ONE with the dephasing object, each kept for the whole run."""
        if not hasattr(self, "props"):
            self.props = {}
            self.prop_denses = {False: 1, True: 1}
        if with_pd not in self.props:
            qr = self.qr
            if with_pd:
                self.props[True] = qr.ReducedDensityMatrixPropagator(self.time, self.ham, RTensor=self.relt, PDeph=self.pd)
            elif self.builder_prop is not None:
                self.props[False] = self.builder_prop(self.time)
            else:
                self.props[False] = qr.ReducedDensityMatrixPropagator(self.time, self.ham, RTensor=self.relt)
        return self.props[with_pd]

    def do_apply(self, i, op, Uall, st):
        qr = self.qr
        p = self.p
        N, Nt = self.N, p["Nt"]
        g = numpy.random.Generator(numpy.random.PCG64(op["pay"]))
        a = g.uniform(-1, 1, size=(N, N)) + 1j * g.uniform(-1, 1, size=(N, N))
        r0 = a @ a.conj().T
        r0 = r0 / numpy.trace(r0).real
        tgt = op.get("target", "complex")
        other = None
        if tgt == "real":
            # a state given by real numbers (real-typed array)
            r0 = numpy.real(r0).copy()
            rho = qr.ReducedDensityMatrix(data=r0.copy())
            r0 = r0.astype(complex)
            self.ctx.probe("apply_to_real_typed_state")
        elif tgt == "shared":
            # two state objects made from one array (rho1 = RDM(data=rho0.data), as in the examples)
            other = qr.ReducedDensityMatrix(data=r0.copy())
            rho = qr.ReducedDensityMatrix(data=other.data)
            self.ctx.probe("apply_to_state_sharing_its_array")
        else:
            rho = qr.ReducedDensityMatrix(data=r0.copy())
        # direct propagation with ONE propagator kept for the whole run; its refinement is set the documented way
        # (propagate(..., Nref=n)) whenever the superoperator was calculated with another dense step, and not touched otherwise
        pdon = st["all_calc_pd"]
        prop = self.propagator(pdon)
        self.prop_dense = self.prop_denses[pdon]
        try:
            if self.prop_dense != st["all_calc_dense"]:
                if st["all_calc_dense"] > 1:
                    rhot = prop.propagate(qr.ReducedDensityMatrix(data=r0.copy()), Nref=st["all_calc_dense"])
                else:
                    prop.setDtRefinement(1)
                    rhot = prop.propagate(qr.ReducedDensityMatrix(data=r0.copy()))
                self.prop_denses[pdon] = st["all_calc_dense"]
            else:
                rhot = prop.propagate(qr.ReducedDensityMatrix(data=r0.copy()))
                self.ctx.probe("propagator_reused_without_refinement_argument")
        except Exception as e:
            raise Violation("propagate-raises", "op %d: %s: %s" % (i, type(e).__name__, e))
        direct = numpy.array(rhot.data)
        if pdon:
            self.ctx.probe("apply_with_pure_dephasing")
        if getattr(self.ham, "has_rwa", False) and not getattr(rhot, "is_in_rwa", True):
            # compare in the frame the superoperator is computed in
            try:
                rhot.convert_to_RWA(self.ham)
                direct = numpy.array(rhot.data)
            except Exception:
                return
        how = op["how"]
        data = numpy.array(Uall.data)
        if op.get("ctx") and not getattr(self.ham, "has_rwa", False) and not pdon:
            # the same request made inside the eigenbasis of the Hamiltonian (first access of the superoperator there);
            # everything comes back to the site basis when the context is left and must equal direct propagation
            import contextlib
            how2 = how
            if op.get("ctxkind") == "complex":
                gg = numpy.random.Generator(numpy.random.PCG64(op["pay"] + 17))
                aa = gg.uniform(-1, 1, size=(N, N)) + 1j * gg.uniform(-1, 1, size=(N, N))
                ctxop = qr.qm.SelfAdjointOperator(data=(aa + aa.conj().T) / 2.0)
                self.ctx.probe("apply_inside_complex_context")
            else:
                ctxop = self.ham
            try:
                with qr.eigenbasis_of(ctxop):
                    if how2 == "single":
                        k = op["k"] % Nt
                        res = Uall.apply(float(self.time.data[k]), rho, copy=True)
                    elif how2 == "all":
                        res = Uall.apply("all", rho)
                    elif how2 == "axis":
                        res = Uall.apply(self.time, rho)
                    elif how2 == "array":
                        res = Uall.apply([float(x) for x in self.time.data[:max(2, Nt // 2)]], rho)
                    else:
                        res = Uall.apply(qr.TimeAxis(0.0, max(2, Nt // 2), p["dt"]), rho)
            except Exception as e:
                raise Violation("apply-raises", "op %d: apply(%s) inside eigenbasis_of(H): %s: %s" % (i, how2, type(e).__name__, e))
            got = numpy.array(res.data)
            if how2 == "single":
                exp = direct[k]
            else:
                exp = direct[:got.shape[0]]
            check(got.shape == exp.shape and close(got, exp, rtol=0, atol=1e-9 * (1 + Nt)), "apply-in-context-reproduces-propagation",
                  lambda: "op %d: apply(%s, rho) requested inside eigenbasis_of(H), read outside: %s" % (i, how2, maxdiff(got, exp)))
            after = numpy.array(Uall.data)
            check(close(after, data, rtol=0, atol=1e-10), "apply-in-context-changed-superoperator",
                  lambda: "op %d: the superoperator differs after apply(%s) inside a context: %s" % (i, how2, maxdiff(after, data)))
            self.ctx.probe("apply_inside_context")
            self.ctx.ev(i, "apply-ctx", how2, fingerprint(got))
            self.ctx.cov("apply-ctx", how2)
            return
        if how == "single":
            k = op["k"] % Nt
            try:
                res = Uall.apply(float(self.time.data[k]), rho, copy=bool(op["copy"]))
            except Exception as e:
                raise Violation("apply-raises", "op %d: apply(t_%d): %s: %s" % (i, k, type(e).__name__, e))
            got = numpy.array(res.data)
            exp = numpy.tensordot(data[k], r0)
            check(close(got, exp, rtol=0, atol=1e-12), "apply-is-contraction", "op %d: apply(t_%d, rho)" % (i, k))
            check(close(got, direct[k], rtol=0, atol=1e-10 * (1 + k)), "apply-reproduces-propagation",
                  lambda: "op %d: apply(t_%d, rho) vs direct propagation: %s" % (i, k, maxdiff(got, direct[k])))
            if other is not None:
                check(close(numpy.array(other.data), r0, rtol=0, atol=0), "other-object-changed",
                      lambda: "op %d: apply(t_%d, rho, copy=%s) changed another state object made from the same array" % (i, k, bool(op["copy"])))
            self.ctx.probe("apply_single_time")
        else:
            try:
                if how == "axis":
                    res = Uall.apply(self.time, rho)
                elif how == "all":
                    res = Uall.apply("all", rho)
                elif how == "array":
                    f0 = min(int(op.get("first", 0)), max(0, Nt - 3))
                    res = Uall.apply([float(x) for x in self.time.data[f0:f0 + max(2, Nt // 2)]], rho)
                else:
                    f0 = min(int(op.get("first", 0)), max(0, Nt - 3))
                    res = Uall.apply(qr.TimeAxis(float(self.time.data[f0]), max(2, Nt // 2), p["dt"]), rho)
            except Exception as e:
                raise Violation("apply-raises", "op %d: apply(%s): %s: %s" % (i, how, type(e).__name__, e))
            got = numpy.array(res.data)
            n = got.shape[0]
            f0 = f0 if how in ("array", "list") else 0
            if f0 > 0:
                self.ctx.probe("apply_window_not_starting_at_zero")
            n = min(n, Nt - f0)
            check(close(got[:n], direct[f0:f0 + n], rtol=0, atol=1e-10 * (1 + n + f0)), "apply-reproduces-propagation",
                  lambda: "op %d: apply(%s, rho) on a window starting at index %d vs direct propagation: %s"
                  % (i, how, f0, maxdiff(got[:n], direct[f0:f0 + n])))
            self.ctx.probe("apply_time_axis")
        self.ctx.ev(i, "apply", how, fingerprint(got))
        self.ctx.cov("apply", how, bool(op["copy"]))
