# -*- coding: utf-8 -*-
"""C17 -- rate-matrix editing histories and population dynamics.

Real code: RateMatrix.set_rate, PopulationPropagator (propagate,
get_PropagationMatrix), TimeAxis / ValueAxis.is_subset_of.
Reference model (NumPy/SciPy only): dict of off-diagonal rates -> generator K,
scipy.linalg.expm as the exact exponential, explicit Taylor remainder bound.
"""
import numpy
import scipy.linalg

from ..core import Violation, check, close, maxdiff, fingerprint

DTS = [0.25, 0.5, 1.0, 2.0]          # binary-exact steps: float equality in
                                      # is_subset_of is then exact arithmetic
INEXACT_DTS = [0.1, 0.3]             # refusal tolerated, wrong values are not


class World:
    name = "rateworld"
    prop_id = "C17"
    level = "exploration"
    quick_runs = 6000
    thorough_budget_s = 600
    run_timeout = 60.0
    required_probes = ["defective_generator", "shifted_start", "coarser_step",
                       "edit_between_make_and_use", "reassign_rate", "zero_rate",
                       "refused_diagonal", "unaligned_shift", "complex_spectrum", "main_axis_start_nonzero", "propagation_matrix_with_corrections", "step_ratio_not_an_exact_integer",
                       "two_propagation_results_kept", "long_shift_just_off_a_whole_coarse_step",
                       "storage_replaced_by_another_size", "propagation_continued_from_earlier_result",
                       "shifted_start_with_more_than_100_points", "axis_shifted_after_the_propagator_was_built",
                       "step_long_on_the_scale_of_the_rates"]
    required_faults = ["refused_diagonal_set", "refused_bad_assignment"]
    components = {
        "real": ["quantarhei RateMatrix.set_rate", "PopulationPropagator.propagate",
                 "PopulationPropagator.get_PropagationMatrix", "TimeAxis", "ValueAxis.is_subset_of"],
        "stub": [],
        "reference_model": ["dict of off-diagonal rates", "scipy.linalg.expm", "Taylor remainder bound"],
    }
    assumptions = [
        "scipy.linalg.expm is exact to 1e-12 relative for the 2..6 dimensional generators used",
        "a propagator built from a RateMatrix may either follow later edits or keep the rates it was built with; both are accepted",
        "only binary-exact time steps are required to be accepted as sub-axes; for inexact steps a refusal is tolerated",
    ]
    rule = ("program = seeded list of set_rate (incl. re-assignment, zero, refused diagonal / out-of-range / non-real assignments), "
            "make_prop, propagate and prop_matrix (coarser steps, shifted and unaligned starts, non-zero start of the main axis, "
            "perturbative corrections, sub-axes of > 100 points, very long fine axes, axis shifted after construction, runs continued "
            "from earlier results, storage replaced by another size, steps long on the scale of the rates) ops on one shared RateMatrix (dim 2..6, swarm: generic, equal-rate chain (defective), cyclic "
            "(complex spectrum), sparse, from data); non-trivial = >=1 accepted set_rate followed by >=1 propagate or prop_matrix; "
            "distinct = distinct event-log digests among non-trivial runs")

    # ------------------------------------------------------------------ gen
    def gen(self, rng, tier):
        N = rng.choice([2, 2, 3, 3, 4, 5, 6])
        shape = rng.choice(["generic", "generic", "chain_equal", "cyclic", "sparse", "from_data"])
        dt = rng.choice(DTS) if rng.random() < 0.85 else rng.choice(INEXACT_DTS)
        Nt = rng.choice([8, 16, 33, 64, 120, 400])
        t0 = rng.choice([0.0, 0.0, 0.0, 3.0, -3.0, 0.5, 12.0, -0.25]) if dt in DTS else 0.0
        if dt in INEXACT_DTS:
            Nt = rng.choice([100, 200])      # room for coarse steps whose floating-point ratio to dt is not an exact integer
        # ||K|| dt between 1e-3 and ~0.6
        kscale = (10 ** rng.uniform(-3, -0.5)) / dt
        coarse = rng.random() < 0.08
        if coarse:
            # steps that are long on the scale of the fastest depopulation time (||K|| dt between 1 and 2.5): the rigorous
            # remainder bound is loose there, the actual truncation error of the fourth-order expansion is the yardstick
            kscale = rng.uniform(2.0, 3.0) / dt
            Nt = 8
            shape = "generic"
            N = max(N, 3)
        long_fine = (not coarse) and rng.random() < 0.06
        if long_fine:
            dt, Nt, t0 = 2.0 ** -10, 135168, 0.0
            kscale = rng.uniform(0.3, 3.0) / 128.0        # the dynamics is still alive at t ~ 100
        nops = rng.randint(3, 30 if tier == "quick" else 45)
        ops = []
        # seed edits according to shape so that special spectra are reached
        if shape == "chain_equal":
            k = round(kscale * rng.uniform(0.3, 1.0), 6)
            for i in range(N - 1):
                ops.append({"op": "set_rate", "i": i + 1, "j": i, "v": k})
        elif shape == "cyclic":
            k = round(kscale * rng.uniform(0.3, 1.0), 6)
            for i in range(N):
                ops.append({"op": "set_rate", "i": (i + 1) % N, "j": i, "v": k})
        while len(ops) < nops:
            r = rng.random()
            if r < 0.05:
                ops.append({"op": "bad_set", "i": rng.randrange(N), "j": rng.randrange(N),
                            "how": rng.choice(["target_out_of_range", "source_out_of_range", "complex_value", "string_value"]),
                            "v": round(kscale * rng.uniform(0.1, 1.0) / N, 6)})
            elif r < 0.45:
                v = 0.0 if rng.random() < 0.12 else round(kscale * rng.uniform(0.0, 1.0) / N, 6)
                i = rng.randrange(N)
                j = rng.randrange(N) if rng.random() < 0.9 else i
                ops.append({"op": "set_rate", "i": i, "j": j, "v": v})
            elif r < 0.57:
                ops.append({"op": "make_prop"})
            elif r < 0.6:
                ops.append({"op": "shift_axis"})
            elif r < 0.8:
                p0 = [round(rng.random(), 4) for _ in range(N)]
                if rng.random() < 0.3:
                    p0 = [0.0] * N
                    p0[rng.randrange(N)] = 1.0
                ops.append({"op": "propagate", "p0": p0, "cont": rng.random() < 0.25})
            else:
                m = rng.choice([1, 2, 3, 4, 5])
                if dt in INEXACT_DTS and rng.random() < 0.5:
                    m = rng.choice([43, 81, 86, 91] if dt == 0.1 else [31, 57, 62])
                s = rng.choice([0, 0, 1, 2, 3, 5, 7])
                ln = rng.randint(2, 12)
                if Nt >= 400 and rng.random() < 0.5:
                    ln = rng.randint(101, 160)      # long sub-axes
                    m = rng.choice([1, 2])
                ops.append({"op": "prop_matrix", "m": m, "s": s, "len": ln, "corr": rng.choice([-1, -1, -1, 0, 1, 2]),
                            "exact": rng.random() < 0.5})
        if long_fine:
            # a very fine, very long main axis: sub-axes start more than 1e5 fine steps in, on and just off whole coarse steps
            new = []
            for o in ops:
                if o["op"] in ("propagate", "prop_matrix"):
                    o = {"op": "prop_matrix", "m": 1024, "s": rng.randint(96, 128) * 1024 + rng.choice([0, 1, 1, -1, 3, 512]),
                         "len": rng.randint(2, 4), "corr": -1, "exact": False}
                new.append(o)
            ops = new
        built_dim = None
        if rng.random() < 0.15:
            # the matrix object is created with another size and given its N x N storage afterwards (set_data / load_data)
            built_dim = rng.choice([1, N + 2, max(1, N - 1)])
        return {"N": N, "shape": shape, "dt": dt, "Nt": Nt, "t0": t0, "built_dim": built_dim, "via_file": rng.random() < 0.5, "ops": ops,
                "init": ([[round(rng.uniform(0, kscale / N), 6) for _ in range(N)] for _ in range(N)]
                         if shape == "from_data" else None)}

    # ------------------------------------------------------------------ run
    def run(self, program, ctx):
        from quantarhei import TimeAxis
        from quantarhei.qm.liouvillespace.rates.ratematrix import RateMatrix
        from quantarhei.qm.propagators.poppropagator import PopulationPropagator

        N, dt, Nt = program["N"], program["dt"], program["Nt"]
        ctx.ev("cfg", N, program["shape"], dt, Nt)

        def give_storage(rm, K):
            """The documented ways of replacing the storage of a MatrixData object: set_data, or load_data from a file."""
            if program.get("via_file"):
                import os
                import tempfile
                d = tempfile.mkdtemp(prefix="qsim-rate-", dir=os.environ.get("QSIM_SCRATCH"))
                try:
                    src = RateMatrix(data=K)
                    src.save_data(os.path.join(d, "k.npy"))
                    rm.load_data(os.path.join(d, "k.npy"))
                finally:
                    import shutil
                    shutil.rmtree(d, ignore_errors=True)
            else:
                rm.set_data(K)
            ctx.probe("storage_replaced_by_another_size")

        model = {}                      # (i,j) -> rate, i != j
        if program.get("init"):
            K0 = numpy.array(program["init"], dtype=numpy.float64)
            for i in range(N):
                K0[i, i] = 0.0
            for i in range(N):
                K0[i, i] = -numpy.sum(K0[:, i])
            for i in range(N):
                for j in range(N):
                    if i != j:
                        model[(i, j)] = K0[i, j]
            if program.get("built_dim") and program["built_dim"] != N:
                rm = RateMatrix(dim=program["built_dim"])
                give_storage(rm, K0.copy())
            else:
                rm = RateMatrix(data=K0.copy())
        else:
            if program.get("built_dim") and program["built_dim"] != N:
                rm = RateMatrix(dim=program["built_dim"])
                give_storage(rm, numpy.zeros((N, N)))
            else:
                rm = RateMatrix(dim=N)

        hist = {"max": 0.0}
        kept = []                       # (what, the array object handed out, a private copy taken at once)

        def check_kept(tag):
            for what, obj, snap in kept:
                check(obj.shape == snap.shape and numpy.array_equal(obj, snap), "earlier-result-changed",
                      lambda: "%s: the array returned by %s is no longer what it was when it was returned: %s"
                      % (tag, what, maxdiff(obj, snap) if obj.shape == snap.shape else "shape"))

        def Kmodel():
            K = numpy.zeros((N, N))
            for (i, j), v in model.items():
                K[i, j] += v
                K[j, j] -= v
            return K

        t0 = float(program.get("t0", 0.0))
        if t0 != 0.0:
            ctx.probe("main_axis_start_nonzero")
        axis = TimeAxis(t0, Nt, dt)
        shifted = [False]
        prop = None
        K_at_make = None
        semantics = {"live": 0, "snapshot": 0}     # a propagator either follows later edits or keeps its rates: not both
        edits = 0
        used = 0

        def check_matrix(tag):
            K = Kmodel()
            data = numpy.array(rm.data, dtype=float)
            # rounding errors of the compensation accumulate at the size of the largest rate ever assigned
            hist["max"] = max(hist["max"], float(numpy.max(numpy.abs(K))), 1e-300)
            scale = hist["max"]
            for i in range(N):
                for j in range(N):
                    if i != j:
                        check(data[i, j] == K[i, j], "assigned-rate-kept",
                              lambda: "%s: K[%d,%d]=%r, assigned %r" % (tag, i, j, data[i, j], K[i, j]))
            cs = numpy.abs(numpy.sum(data, axis=0))
            check(numpy.all(cs <= 64 * numpy.finfo(float).eps * scale * max(edits, 1)),
                  "column-sum-zero", lambda: "%s: column sums %r (scale %g)" % (tag, cs.tolist(), scale))
            return K

        def classify(K):
            w = numpy.linalg.eigvals(K) if K.size else numpy.zeros(0)
            cls = []
            if numpy.max(numpy.abs(w.imag)) > 1e-12 * max(numpy.max(numpy.abs(w)), 1e-300):
                cls.append("complex")
                ctx.probe("complex_spectrum")
            try:
                _, S = numpy.linalg.eig(K)
                c = numpy.linalg.cond(S)
            except Exception:
                c = numpy.inf
            if c > 1e8:
                cls.append("defective")
                ctx.probe("defective_generator")
            return "+".join(cls) or "plain"

        for idx, op in enumerate(program["ops"]):
            ctx.step()
            kind = op["op"]
            if kind == "set_rate":
                i, j, v = op["i"] % N, op["j"] % N, float(op["v"])
                before = numpy.array(rm.data, dtype=float).copy()
                try:
                    rm.set_rate((i, j), v)
                    refused = False
                except Exception as e:
                    refused = True
                    exc = type(e).__name__
                if i == j:
                    ctx.fault("refused_diagonal_set")
                    ctx.probe("refused_diagonal")
                    check(refused, "diagonal-set-refused", "set_rate((%d,%d)) was accepted" % (i, j))
                    check(numpy.array_equal(before, numpy.array(rm.data, dtype=float)),
                          "refusal-leaves-data", "refused set_rate changed the matrix")
                    ctx.ev(idx, kind, i, j, "refused")
                    ctx.cov(N, "set_rate", "refused")
                else:
                    check(not refused, "set-rate-accepted",
                          lambda: "set_rate((%d,%d),%r) raised %s" % (i, j, v, exc))
                    if (i, j) in model and model[(i, j)] != 0.0:
                        ctx.probe("reassign_rate")
                    if v == 0.0:
                        ctx.probe("zero_rate")
                    model[(i, j)] = v
                    edits += 1
                    if prop is not None:
                        ctx.probe("edit_between_make_and_use")
                    check_matrix("after op %d" % idx)
                    ctx.ev(idx, kind, i, j, v, fingerprint(rm.data))
                    ctx.cov(N, "set_rate", min(edits, 6), prop is not None)
            elif kind == "shift_axis":
                # the caller moves the (shared) time axis to start at zero after the propagator was built on it
                if t0 > 0.0 and prop is not None and not shifted[0]:
                    axis.shift_to_zero()
                    t0 = 0.0
                    shifted[0] = True
                    ctx.probe("axis_shifted_after_the_propagator_was_built")
                    ctx.ev(idx, kind, "done")
                else:
                    ctx.ev(idx, kind, "n/a")
            elif kind == "make_prop":
                prop = PopulationPropagator(axis, rate_matrix=rm)
                K_at_make = Kmodel()
                semantics = {"live": 0, "snapshot": 0}
                ctx.ev(idx, kind)
                ctx.cov(N, "make_prop", min(edits, 6))
            elif kind == "propagate":
                if prop is None:
                    prop = PopulationPropagator(axis, rate_matrix=rm)
                    K_at_make = Kmodel()
                p0 = numpy.array(op["p0"][:N] + [0.0] * max(0, N - len(op["p0"])), dtype=float)
                p_in = p0.copy()
                earlier = [k for k in kept if k[0].startswith("propagate")]
                if op.get("cont") and earlier:
                    # the run is continued from the last point of an earlier result (a row of that array, not a copy)
                    p_in = earlier[-1][1][-1]
                    p0 = numpy.array(p_in, dtype=float).copy()
                    ctx.probe("propagation_continued_from_earlier_result")
                Know = check_matrix("before propagate %d" % idx)
                try:
                    pops = prop.propagate(p_in)
                except Exception as e:
                    raise Violation("propagate-raised", "%s: %s" % (type(e).__name__, e))
                pops = numpy.asarray(pops)
                check(numpy.array_equal(numpy.asarray(p_in, dtype=float), p0), "input-changed",
                      lambda: "op %d: propagate changed the initial populations it was given: %r -> %r" % (idx, p0.tolist(), numpy.asarray(p_in).tolist()))
                if len(kept) < 6:
                    kept.append(("propagate at op %d" % idx, pops, pops.copy()))
                    if sum(1 for k in kept if k[0].startswith("propagate")) >= 2:
                        ctx.probe("two_propagation_results_kept")
                check(pops.shape == (Nt, N), "propagate-shape", "shape %r" % (pops.shape,))
                check(numpy.all(numpy.isfinite(pops)), "propagate-finite", "non-finite populations")
                s0 = numpy.sum(p0)
                sc = max(s0, 1e-300)
                cand = [Know] if numpy.array_equal(Know, K_at_make) else [Know, K_at_make]
                ok_any, worst = False, None
                for K in cand:
                    a = numpy.linalg.norm(K * dt, 1)
                    r = a ** 5 / 120.0 * numpy.exp(a)
                    n = numpy.arange(Nt)
                    bound = 2.0 * n * r * (1.0 + r) ** numpy.maximum(n - 1, 0) * s0 + 1e-12 * sc * (n + 1)
                    E = scipy.linalg.expm(K * dt)
                    ref = numpy.zeros((Nt, N))
                    ref[0] = p0
                    for t in range(1, Nt):
                        ref[t] = E.dot(ref[t - 1])
                    err = numpy.max(numpy.abs(pops - ref), axis=1)
                    if a > 0.6:
                        # yardstick for long steps: the truncation error the fourth-order expansion at the axis step really has
                        Kd = K * dt
                        T4 = numpy.eye(N) + Kd + Kd @ Kd / 2.0 + Kd @ Kd @ Kd / 6.0 + Kd @ Kd @ Kd @ Kd / 24.0
                        t4 = numpy.zeros((Nt, N))
                        t4[0] = p0
                        for t in range(1, Nt):
                            t4[t] = T4.dot(t4[t - 1])
                        actual = numpy.max(numpy.abs(t4 - ref), axis=1)
                        big = max(sc, float(numpy.max(numpy.abs(t4))))
                        bound = numpy.minimum(bound, actual * (1.0 + 1e-6) + 1e-10 * big * (n + 1))
                        ctx.probe("step_long_on_the_scale_of_the_rates")
                    if numpy.all(err <= bound):
                        ok_any = True
                        if len(cand) == 2:
                            semantics["live" if K is Know else "snapshot"] += 1
                        # conservation and non-negativity within the same bound
                        amp = max(1.0, float(numpy.max(numpy.abs(pops))) / sc)      # intermediate growth at inadmissibly long steps
                        check(numpy.all(numpy.abs(numpy.sum(pops, axis=1) - s0) <= 1e-12 * sc * amp * (n + 1) * 4),
                              "population-sum-conserved",
                              lambda: "sum drifts by %g" % numpy.max(numpy.abs(numpy.sum(pops, axis=1) - s0)))
                        if a <= 1.0:
                            # non-negativity is promised for admissible step sizes only
                            check(numpy.all(numpy.min(pops, axis=1) >= -bound), "population-nonnegative",
                                  lambda: "min population %g" % numpy.min(pops))
                        break
                    worst = (float(numpy.max(err - bound)), float(numpy.max(err)))
                check(ok_any, "propagate-matches-exponential",
                      lambda: "excess over Taylor bound %g (max err %g)" % worst)
                cls = classify(Know)
                used += 1
                ctx.ev(idx, kind, fingerprint(pops))
                ctx.cov(N, "propagate", cls, min(edits, 6), len(cand))
            elif kind == "prop_matrix":
                if prop is None:
                    prop = PopulationPropagator(axis, rate_matrix=rm)
                    K_at_make = Kmodel()
                m, s = max(1, op["m"]), max(0, op["s"])
                ln = max(2, op["len"])
                # keep the sub-axis inside the propagator's axis
                while s + m * (ln - 1) > Nt - 1 and ln > 2:
                    ln -= 1
                if s + m * (ln - 1) > Nt - 1:
                    s = 0
                    m = 1
                    ln = 2
                sub = TimeAxis(t0 + s * dt, ln, m * dt)
                exact = dt in DTS
                Know = check_matrix("before prop_matrix %d" % idx)
                if m > 1:
                    ctx.probe("coarser_step")
                if not exact and abs(round(float(sub.step) / dt) - float(sub.step) / dt) > 0:
                    ctx.probe("step_ratio_not_an_exact_integer")
                if s > 0 and ln > 100:
                    ctx.probe("shifted_start_with_more_than_100_points")
                if s > 0:
                    ctx.probe("shifted_start")
                    if s % m != 0:
                        ctx.probe("unaligned_shift")
                corr = int(op.get("corr", -1))
                extra = None
                try:
                    if corr >= 0:
                        U = prop.get_PropagationMatrix(sub, corrections=corr, exact=bool(op.get("exact")))
                        if isinstance(U, tuple):
                            U, extra = U[0], U[1]
                        ctx.probe("propagation_matrix_with_corrections")
                    else:
                        U = prop.get_PropagationMatrix(sub)
                    raised = None
                except Exception as e:
                    raised = e
                if raised is not None:
                    if (not exact) and "not a subset" in str(raised):
                        ctx.probe("inexact_axis_refused")
                        ctx.ev(idx, kind, m, s, ln, "refused-inexact")
                        continue
                    raise Violation("prop-matrix-raised", "%s: %s (m=%d s=%d len=%d dt=%g)"
                                    % (type(raised).__name__, raised, m, s, ln, dt))
                U = numpy.asarray(U)
                if len(kept) < 6:
                    kept.append(("get_PropagationMatrix at op %d" % idx, U, U.copy()))
                if s * dt >= 64.0 and dt < 1e-2 and s % m != 0:
                    ctx.probe("long_shift_just_off_a_whole_coarse_step")
                check(U.shape == (N, N, ln), "prop-matrix-shape", "shape %r" % (U.shape,))
                cand = [Know] if numpy.array_equal(Know, K_at_make) else [Know, K_at_make]
                ok_any, worst = False, None
                for K in cand:
                    ref = numpy.zeros((N, N, ln))
                    for t in range(ln):
                        ref[:, :, t] = scipy.linalg.expm(K * (sub.data[t] - axis.start))
                    d = float(numpy.max(numpy.abs(U - ref))) if numpy.all(numpy.isfinite(U)) else numpy.inf
                    if d <= 1e-9:
                        ok_any = True
                        if len(cand) == 2:
                            semantics["live" if K is Know else "snapshot"] += 1
                        break
                    worst = d
                cls = classify(Know)
                check(ok_any, "prop-matrix-equals-exponential",
                      lambda: "max|U-expm(K t)|=%g (generator class %s, m=%d s=%d len=%d)" % (worst, cls, m, s, ln))
                # the request must leave the rate matrix alone (it is shared with the caller)
                check_matrix("after prop_matrix %d" % idx)
                if extra is not None and t0 == 0.0 and s == 0:
                    Uc0 = numpy.asarray(extra[0] if isinstance(extra, tuple) else extra)
                    K = cand[0] if ok_any and len(cand) == 1 else Know
                    ref0 = numpy.zeros((N, N, ln))
                    for a in range(N):
                        ref0[a, a, :] = numpy.exp(K[a, a] * numpy.array(sub.data))
                    if len(cand) == 1:
                        check(Uc0.shape == ref0.shape and float(numpy.max(numpy.abs(Uc0 - ref0))) <= 1e-10, "zero-order-correction",
                              lambda: "op %d: zeroth-order propagation matrix differs from exp(K_ii t)" % idx)
                used += 1
                ctx.ev(idx, kind, m, s, ln, fingerprint(U))
                ctx.cov(N, "prop_matrix", cls, m > 1, s > 0, s % m != 0, min(edits, 6))
            elif kind == "bad_set":
                i, j, v = op["i"] % N, op["j"] % N, float(op["v"])
                if i == j:
                    j = (i + 1) % N
                how = op["how"]
                pos, val = (i, j), v
                if how == "target_out_of_range":
                    pos = (N + 1, j)
                elif how == "source_out_of_range":
                    pos = (i, N + 2)
                elif how == "complex_value":
                    val = complex(v, v)
                else:
                    val = "fast"
                before = numpy.array(rm.data, dtype=float).copy()
                refused = False
                try:
                    rm.set_rate(pos, val)
                except Exception:
                    refused = True
                ctx.fault("refused_bad_assignment")
                check(refused, "bad-assignment-accepted", lambda: "op %d: set_rate(%r, %r) was accepted" % (idx, pos, val))
                check(numpy.array_equal(before, numpy.array(rm.data, dtype=float)), "refusal-leaves-data",
                      lambda: "op %d: refused set_rate(%r, %r) changed the matrix" % (idx, pos, val))
                ctx.ev(idx, kind, how, "refused")
                ctx.cov(N, "bad_set", how)
            else:
                ctx.ev(idx, "noop", kind)
            check_kept("after op %d (%s)" % (idx, kind))
            check(not (semantics["live"] and semantics["snapshot"]), "propagator-semantics-inconsistent",
                  lambda: "op %d: the same propagator followed a later set_rate in one call and ignored it in another" % idx)
        check_matrix("end")
        ctx.nontrivial = edits >= 1 and used >= 1

    # --------------------------------------------------- failure bookkeeping
    def crude_signature(self, program, oracle):
        return oracle

    def matches_finding(self, entry, program, oracle):
        return False

    def simplify(self, program):
        # fewer time points, then rounder numbers
        if 8 < program["Nt"] < 5000:
            yield dict(program, Nt=8)
        if program.get("init"):
            yield dict(program, init=None, shape="generic")
        ops = program["ops"]
        for n, op in enumerate(ops):
            if op["op"] == "set_rate" and op["v"] not in (0.0, 0.1):
                new = list(ops)
                new[n] = dict(op, v=0.1)
                yield dict(program, ops=new)
            if op["op"] == "prop_matrix" and (op["m"], op["s"], op["len"]) != (1, 0, 2):
                for alt in (dict(op, s=0), dict(op, m=1), dict(op, len=2)):
                    if alt != op:
                        new = list(ops)
                        new[n] = alt
                        yield dict(program, ops=new)
            if op["op"] == "propagate" and any(x not in (0.0, 1.0) for x in op["p0"]):
                new = list(ops)
                new[n] = dict(op, p0=[1.0] + [0.0] * (len(op["p0"]) - 1))
                yield dict(program, ops=new)
