# -*- coding: utf-8 -*-
"""C20 -- distributed work ranges partition the index range exactly.

N simulated ranks (real threads, one runnable at a time, seeded scheduler; see
qsim/fakempi.py) run an SPMD program made of phases that use the real
block-distribution helpers, reductions, collect_block_distributed_data and
the library's own distributed loops.  Oracles: partition of the handed-out
blocks, reduced result == serial result, bounded progress (no deadlock).
"""
import numpy

from ..core import Violation, check, close, maxdiff, fingerprint
from .. import fakempi


def f_index(i):
    return numpy.array([[i, i * i, 1], [i % 3, 7, -i]], dtype=numpy.int64)


def f_elem(a, e):
    return numpy.array([[e, e * e, 1], [a, a * e, -1]], dtype=numpy.int64)


class World:
    name = "mpiworld"
    prop_id = "C20"
    level = "exploration"
    quick_runs = 4000
    thorough_budget_s = 600
    run_timeout = 120.0
    probe_min_runs = 1000
    required_probes = ["start_nonzero", "empty_range", "range_shorter_than_size", "size_not_dividing",
                       "inactive_level2", "refused_outside_region", "collective_left_early",
                       "rendezvous_send", "library_rates_distributed", "library_tensor_distributed",
                       "negative_length", "single_rank", "return_index_list", "return_index_array",
                       "library_tensor_created_and_converted_at_different_levels", "same_list_object_distributed_again",
                       "reduced_array_not_c_contiguous", "other_helper_called_before_the_block_is_iterated",
                       "nested_library_loop_before_collection", "time_dependent_tensor_converted_under_distribution"]
    required_faults = ["stalled_rank", "start_skew", "refused_library_call_inside_distributed_loop"]
    components = {
        "real": ["quantarhei.core.parallel: DistributedConfiguration, start/close_parallel_region, block_distributed_range/list/array, "
                 "_calculate_ranges*, reduce/allreduce, collect_block_distributed_data",
                 "implementations.python.redfieldrates.ssRedfieldRateMatrix",
                 "RedfieldRelaxationTensor._implementation/_convert_operators_2_tensor"],
        "stub": ["mpi4py (in-process fake communicator: Get_rank/Get_size/Barrier/bcast/Reduce/Allreduce/Send/Recv)",
                 "Manager.get_DistributedConfiguration routed to a per-rank DistributedConfiguration"],
        "reference_model": ["serial loop over range(start, stop)", "partition predicate"],
    }
    assumptions = [
        "MPI transport is reliable and collectives are called in the same order by all ranks (SPMD); only schedules are varied",
        "ranks are threads of one process: per-rank DistributedConfiguration and per-rank input twins stand in for separate address spaces",
        "the fake communicator takes buffers the way mpi4py does (PyBUF_ANY_CONTIGUOUS): C- or Fortran-contiguous arrays as one "
        "flat run of elements in memory order, anything else is refused with ValueError",
    ]
    rule = ("run = N in 1..17 simulated ranks x 1..6 phases (range/list/array with or without index, reduce/allreduce/none, "
            "collect, accumulator layouts C/F/transposed/strided/1-D, helper calls and nested or refused library calls inside the "
            "caller's loop, library rate-matrix loop (also with noise below rtol), library Redfield tensors incl. the time-dependent "
            "subclass) under a seeded schedule with slow ranks and start skew; "
            "non-trivial = N>=2 and >=1 phase in which distribution is active; distinct = distinct event-log digests "
            "(blocks + results + schedule) among non-trivial runs")

    # ------------------------------------------------------------------ gen
    def gen(self, rng, tier):
        N = rng.choice([1, 2, 2, 3, 3, 4, 4, 5, 6, 7, 8, 11, 16, 17])
        top = rng.choice([1, 1, 1, 0])
        nph = rng.randint(1, 6)
        phases = []
        for _ in range(nph):
            r = rng.random()
            nest = rng.choice([0, 0, 0, 1, 1, 2]) if top == 1 else rng.choice([0, 1, 1, 1, 2])
            red = rng.choice(["allreduce", "allreduce", "reduce", "none"])
            layout = rng.choice(["C", "C", "C", "F", "T", "S", "V"])
            if r < 0.45:
                mode = rng.random()
                if mode < 0.3:
                    start = 0
                else:
                    start = rng.randint(-5, 20)
                if mode > 0.9:
                    ln = rng.randint(-3, 0)          # empty / negative length
                elif mode > 0.7:
                    ln = rng.randint(0, max(0, N - 1))   # shorter than the process count
                else:
                    ln = rng.randint(0, 40)
                phases.append({"op": "range", "start": start, "stop": start + ln, "nest": nest, "red": red, "layout": layout,
                               "inner_refusal": N <= 4 and rng.random() < 0.12})
            elif r < 0.65:
                n = rng.choice([0, 1, 2, 3, 5, 8, 13, 21, N, N + 1, max(0, N - 1), 2 * N])
                collect = rng.random() < 0.4 and n >= N
                phases.append({"op": "list", "n": n, "ri": collect or rng.random() < 0.5, "nest": nest, "red": red,
                               "collect": collect, "same_object": rng.random() < 0.5, "layout": layout, "inner_rates": rng.random() < 0.4,
                               "interleave": rng.random() < 0.4, "inner_refusal": N <= 4 and rng.random() < 0.12})
            elif r < 0.82:
                n = rng.choice([0, 1, 2, 3, 5, 8, 13, 21, N, N + 1, max(0, N - 1), 2 * N])
                phases.append({"op": "array", "n": n, "ri": rng.random() < 0.5, "nest": nest, "red": red, "layout": layout,
                               "interleave": rng.random() < 0.4, "inner_refusal": N <= 4 and rng.random() < 0.12})
            elif r < 0.97 or N > 4:
                phases.append({"op": "rates", "Na": rng.randint(2, 5), "Nk": rng.randint(1, 9),
                               "nest": rng.choice([0, 0, 1]) if top == 0 else rng.choice([0, 1]), "noise": rng.random() < 0.4})
            else:
                phases.append({"op": "tensor", "as_ops": rng.random() < 0.5, "nest": 0})
        if N <= 4 and rng.random() < 0.06:
            if rng.random() < 0.5:
                phases = phases[:2] + [{"op": "tensor", "as_ops": rng.random() < 0.5, "nest": 0, "td": rng.random() < 0.4}]
            else:
                # operator form created in one nesting of parallel regions, converted to a tensor in another
                phases = phases[:2] + [{"op": "tensor_split", "nest": 0, "nest_create": rng.choice([0, 1]), "nest_convert": rng.choice([0, 1])}]
            top = 0
        weights = [1.0] * N
        stalled = []
        if N > 1 and rng.random() < 0.5:
            for _ in range(rng.randint(1, max(1, N // 3))):
                s = rng.randrange(N)
                weights[s] = rng.choice([0.02, 0.1])
                stalled.append(s)
        skew = rng.random() < 0.4
        return {"N": N, "top": top, "p_yield": rng.choice([0.0, 0.3, 1.0]), "weights": weights,
                "skew": skew, "sched_seed": rng.getrandbits(48), "ops": phases}

    # ------------------------------------------------------------------ run
    def run(self, program, ctx):
        import random
        from quantarhei.core.parallel import (DistributedConfiguration, start_parallel_region,
                                              close_parallel_region, block_distributed_range,
                                              block_distributed_list, block_distributed_array,
                                              collect_block_distributed_data, distributed_configuration)
        from quantarhei.core.managers import Manager

        N = program["N"]
        top = program["top"]
        phases = program["ops"]
        ctx.ev("cfg", N, top, program["p_yield"], program["weights"], program["skew"])
        if N == 1:
            ctx.probe("single_rank")
        if any(w < 1.0 for w in program["weights"]):
            ctx.fault("stalled_rank")
        if program["skew"]:
            ctx.fault("start_skew")

        # ---- serial references for the library loops (no MPI visible) ----
        refs = {}
        twins = {}
        for pi, ph in enumerate(phases):
            if ph["op"] == "rates":
                refs[pi] = self._rates(ph, None)
            elif ph["op"] == "tensor":
                refs[pi] = self._tensor(ph, self._system())
                twins[pi] = [self._system() for _ in range(N)]
            elif ph["op"] == "tensor_split":
                refs[pi] = self._tensor({"as_ops": False}, self._system())
                twins[pi] = [self._system() for _ in range(N)]
            elif ph.get("inner_refusal"):
                twins[pi] = [self._system() for _ in range(N)]

        srng = random.Random(program["sched_seed"])
        sim = fakempi.Sim(N, srng, ctx, p_yield=program["p_yield"],
                          step_budget=400 * N * (len(phases) + 2) + 2000, weights=program["weights"])
        undo = fakempi.install(sim)

        world = self

        def rank_program(r):
            out = []
            mylist = []          # this rank's own list object, refilled in place by the phases that ask for it
            if program["skew"]:
                for _ in range(srng.randint(0, 3)):
                    sim.yield_point(r, "start skew")
            dc = Manager().get_DistributedConfiguration()
            if top == 1:
                dc.start_parallel_region()          # what Manager.__init__ does under MPI
            for pi, ph in enumerate(phases):
                rec = {"block": None, "result": None, "refused": None}
                for _ in range(ph["nest"]):
                    start_parallel_region()
                try:
                    kind = ph["op"]
                    if kind == "range":
                        it = block_distributed_range(ph["start"], ph["stop"])
                        blk = [int(i) for i in it]
                        acc = numpy.zeros((2, 3), dtype=numpy.int64)
                        for i in blk:
                            acc += f_index(i)
                        rec["block"] = blk
                    elif kind == "list":
                        if ph.get("same_object"):
                            mylist[:] = [3 * j + 1 for j in range(ph["n"])]      # same object, other length
                            dlist = mylist
                        else:
                            dlist = [3 * j + 1 for j in range(ph["n"])]
                        got = block_distributed_list(dlist, return_index=ph["ri"])
                        if ph.get("interleave") and not ph.get("collect"):
                            # "get my work list, do something else collectively, then loop": another helper call in between
                            # (not before collect_block_distributed_data, which by contract refers to the LAST distribution)
                            for _ in block_distributed_range(0, 3):
                                pass
                            ctx.probe("other_helper_called_before_the_block_is_iterated")
                        acc = numpy.zeros((2, 3), dtype=numpy.int64)
                        blk = []
                        local = {}
                        for item in got:
                            if ph["ri"]:
                                a, e = item
                                if not (0 <= a < len(dlist)) or dlist[a] != e:
                                    raise Violation("index-element-mismatch", "list pair (%r,%r)" % (a, e))
                            else:
                                e = item
                                a = (e - 1) // 3
                            blk.append(int(a))
                            acc += f_elem(a, e)
                            local["t%d" % a] = numpy.array([2.0 * e, 3.0 * e + a], dtype=numpy.complex128)
                        rec["block"] = blk
                        if ph.get("inner_rates"):
                            # a library routine with its own (nested, not sharing) distributed loop runs between the
                            # caller's loop and the collection of its results
                            world._rates({"Na": 2, "Nk": 3}, None)
                            ctx.probe("nested_library_loop_before_collection") if ph.get("collect") else None
                        if ph.get("collect"):
                            collected = {}
                            tags = ["t%d" % j for j in range(ph["n"])]
                            collect_block_distributed_data([collected, local],
                                                           lambda c, t, d: c.__setitem__(t, numpy.array(d)),
                                                           lambda c, t: c[t], tags=tags)
                            rec["collected"] = {k: v.tolist() for k, v in sorted(collected.items())}
                    elif kind == "array":
                        arr = numpy.array([[j, 2 * j + 1] for j in range(ph["n"])], dtype=numpy.int64).reshape(ph["n"], 2)
                        got = block_distributed_array(arr, return_index=ph["ri"])
                        if ph.get("interleave"):
                            for _ in block_distributed_list([1, 2, 3, 4, 5]):
                                pass
                            ctx.probe("other_helper_called_before_the_block_is_iterated")
                        acc = numpy.zeros((2, 3), dtype=numpy.int64)
                        blk = []
                        for item in got:
                            if ph["ri"]:
                                a, row = item
                                if int(row[0]) != a:
                                    raise Violation("index-element-mismatch", "array pair (%r,%r)" % (a, row))
                            else:
                                row = item
                                a = int(row[0])
                            blk.append(int(a))
                            acc += f_elem(int(a), int(row[1]))
                        rec["block"] = blk
                    elif kind == "rates":
                        rec["result"] = world._rates(ph, None)
                        acc = None
                    elif kind == "tensor":
                        rec["result"] = world._tensor(ph, twins[pi][r])
                        acc = None
                    elif kind == "tensor_split":
                        from quantarhei.qm import RedfieldRelaxationTensor
                        agg = twins[pi][r]
                        for _ in range(ph["nest_create"]):
                            start_parallel_region()
                        RT = RedfieldRelaxationTensor(agg.get_Hamiltonian(), agg.get_SystemBathInteraction(), as_operators=True)
                        for _ in range(ph["nest_create"]):
                            close_parallel_region()
                        for _ in range(ph["nest_convert"]):
                            start_parallel_region()
                        RT.convert_2_tensor()
                        for _ in range(ph["nest_convert"]):
                            close_parallel_region()
                        rec["result"] = numpy.asarray(RT.data).copy()
                        acc = None
                    if acc is not None and ph.get("inner_refusal") and pi in twins:
                        # inside the caller's distributed loop a library calculation is refused (cut-off time beyond the
                        # time axis) and the caller carries on
                        from quantarhei.qm import RedfieldRelaxationTensor
                        agg = twins[pi][r]
                        try:
                            RedfieldRelaxationTensor(agg.get_Hamiltonian(), agg.get_SystemBathInteraction(), cutoff_time=1.0e9)
                            refused_inner = False
                        except Exception:
                            refused_inner = True
                        if refused_inner:
                            ctx.fault("refused_library_call_inside_distributed_loop")
                    if acc is not None:
                        cfg = distributed_configuration()
                        # the accumulator the caller happens to have: C-ordered, Fortran-ordered, a transposed view
                        # or a strided section of a larger storage
                        lay = ph.get("layout", "C")
                        if lay == "F":
                            acc = numpy.asfortranarray(acc)
                        elif lay == "T":
                            base = numpy.zeros(acc.shape[::-1], dtype=acc.dtype)
                            base.T[...] = acc
                            acc = base.T
                        elif lay == "S":
                            store = numpy.zeros(acc.shape + (2,), dtype=acc.dtype)
                            store[..., 0] = acc
                            acc = store[..., 0]
                        elif lay == "V":
                            acc = acc.reshape(-1).copy()        # a plain vector
                        if lay != "C" and ph["red"] != "none":
                            ctx.probe("reduced_array_not_c_contiguous")
                        if ph["red"] == "allreduce":
                            cfg.allreduce(acc, operation="sum")
                            rec["result"] = acc
                        elif ph["red"] == "reduce":
                            rec["result"] = cfg.reduce(acc, operation="sum")
                        else:
                            rec["result"] = acc
                    rec["refused"] = False
                except Violation:
                    raise
                except Exception as e:
                    if "declared parallel_region" in str(e):
                        rec["refused"] = True
                    else:
                        raise
                finally:
                    for _ in range(ph["nest"]):
                        close_parallel_region()
                out.append(rec)
            if top == 1:
                dc.finish_parallel_region()
            return out

        try:
            results = sim.run(rank_program)
        finally:
            undo()
        if sim.errors:
            r = sorted(sim.errors)[0]
            e, tb = sim.errors[r]
            if isinstance(e, Violation):
                raise e
            raise Violation("rank-exception", "rank %d: %s: %s\n%s" % (r, type(e).__name__, e, tb))
        ctx.ev("schedule", fingerprint(numpy.array(sim.schedule)), len(sim.schedule))

        # -------------------------------------------------- history oracle
        any_active = False
        nsame = [0]
        for pi, ph in enumerate(phases):
            kind = ph["op"]
            recs = [results[r][pi] for r in range(N)]
            inner = 1 if kind in ("rates", "tensor", "tensor_split") else 0
            if N > 1:
                lvl = top + ph["nest"] + inner
            else:
                lvl = 0
            region = top + ph["nest"] + inner
            active = (lvl == 1)
            refused_expected = region < 1
            if refused_expected:
                ctx.probe("refused_outside_region")
                for r in range(N):
                    check(recs[r]["refused"] is True, "refusal-outside-region",
                          "phase %d rank %d was not refused outside a parallel region" % (pi, r))
                ctx.ev(pi, kind, "refused")
                ctx.cov(kind, "refused", N > 1)
                continue
            for r in range(N):
                check(recs[r]["refused"] is False, "unexpected-refusal",
                      "phase %d rank %d refused inside a parallel region" % (pi, r))
            if active:
                any_active = True
            elif N > 1:
                ctx.probe("inactive_level2")
            if kind in ("range", "list", "array"):
                if kind == "range":
                    start, stop = ph["start"], ph["stop"]
                else:
                    start, stop = 0, ph["n"]
                    if ph["ri"]:
                        ctx.probe("return_index_" + kind)
                    if kind == "list" and ph.get("same_object"):
                        nsame[0] += 1
                        if nsame[0] >= 2:
                            ctx.probe("same_list_object_distributed_again")
                full = list(range(start, stop))
                ln = stop - start
                if start != 0:
                    ctx.probe("start_nonzero")
                if ln == 0:
                    ctx.probe("empty_range")
                if ln < 0:
                    ctx.probe("negative_length")
                if 0 < ln < N:
                    ctx.probe("range_shorter_than_size")
                if ln > 0 and ln % N != 0:
                    ctx.probe("size_not_dividing")
                blocks = [recs[r]["block"] for r in range(N)]
                if active:
                    allidx = []
                    for r, b in enumerate(blocks):
                        check(all(b[i + 1] == b[i] + 1 for i in range(len(b) - 1)), "block-contiguous",
                              lambda: "phase %d rank %d of %d got %r for [%d,%d)" % (pi, r, N, b, start, stop))
                        allidx.extend(b)
                    check(len(set(allidx)) == len(allidx), "blocks-disjoint",
                          lambda: "phase %d: N=%d range [%d,%d) blocks %r overlap" % (pi, N, start, stop, blocks))
                    check(sorted(allidx) == full, "blocks-cover-range",
                          lambda: "phase %d: N=%d range [%d,%d) blocks %r" % (pi, N, start, stop, blocks))
                    sizes = [len(b) for b in blocks]
                    check(max(sizes) - min(sizes) <= 1, "block-sizes-balanced",
                          lambda: "phase %d: N=%d range [%d,%d) sizes %r" % (pi, N, start, stop, sizes))
                else:
                    for r, b in enumerate(blocks):
                        check(b == full, "serial-range-complete",
                              lambda: "phase %d rank %d (distribution inactive) got %r for [%d,%d)" % (pi, r, b, start, stop))
                serial = numpy.zeros((2, 3), dtype=numpy.int64)
                for i in full:
                    if kind == "range":
                        serial += f_index(i)
                    elif kind == "list":
                        serial += f_elem(i, 3 * i + 1)
                    else:
                        serial += f_elem(i, 2 * i + 1)
                if ph["red"] == "allreduce" or not active:
                    who = range(N) if ph["red"] != "none" or not active else []
                elif ph["red"] == "reduce":
                    who = [0]
                else:
                    who = []
                if ph.get("layout") == "V":
                    serial = serial.reshape(-1)
                for r in who:
                    res = recs[r]["result"]
                    check(res is not None and numpy.array_equal(numpy.asarray(res), serial), "reduced-equals-serial",
                          lambda: "phase %d (%s, %s) rank %d of %d: reduced %r, serial %r; blocks %r"
                          % (pi, kind, ph["red"], r, N, None if res is None else numpy.asarray(res).tolist(),
                             serial.tolist(), blocks))
                if kind == "list" and ph.get("collect"):
                    exp = {"t%d" % j: numpy.array([2.0 * (3 * j + 1), 3.0 * (3 * j + 1) + j], dtype=numpy.complex128).tolist()
                           for j in range(ph["n"])}
                    got = recs[0].get("collected")
                    check(got == exp, "collected-equals-serial",
                          lambda: "phase %d: collected on rank 0 %r, expected %r" % (pi, got, exp))
                    ctx.probe("collect")
                ctx.ev(pi, kind, start, stop, active, ph["red"], blocks if active else "full")
                ctx.cov(kind, N, start % max(N, 1), ln % max(N, 1) if ln >= 0 else -1, ln < N, active,
                        ph["red"], bool(ph.get("ri")), bool(ph.get("collect")))
            else:
                ref = refs[pi]
                if kind == "tensor_split":
                    ctx.probe("library_tensor_created_and_converted_at_different_levels") if ph["nest_create"] != ph["nest_convert"] else None
                    active = (N > 1) and (top + ph["nest_create"] + 1 == 1 or top + ph["nest_convert"] + 1 == 1)
                if active:
                    ctx.probe("library_%s_distributed" % ("tensor" if kind == "tensor_split" else kind))
                    if ph.get("td"):
                        ctx.probe("time_dependent_tensor_converted_under_distribution")
                for r in range(N):
                    res = recs[r]["result"]
                    check(res is not None and close(res, ref, rtol=1e-12), "library-loop-equals-serial",
                          lambda: "phase %d %s rank %d of %d (active=%s): %s" % (pi, kind, r, N, active, maxdiff(res, ref)))
                ctx.ev(pi, kind, active, fingerprint(ref))
                ctx.cov(kind, N, active, ph.get("Nk"), ph.get("as_ops"))
        ctx.nontrivial = N >= 2 and any_active

    # -------------------------------------------------- library workloads
    def _rates(self, ph, _unused):
        from quantarhei.implementations.python.redfieldrates import ssRedfieldRateMatrix
        Na, Nk = ph["Na"], ph["Nk"]
        g = numpy.random.Generator(numpy.random.PCG64(1000 * Na + Nk))
        KI = g.integers(-3, 4, size=(Nk, Na, Na)).astype(numpy.float64)
        KI = KI + numpy.transpose(KI, (0, 2, 1))
        cc = g.integers(0, 5, size=(Nk, Na, Na)).astype(numpy.float64)
        rtol = 1e-3
        if ph.get("noise"):
            # bath components whose spectral density is slightly negative here and there (numerical noise below rtol):
            # the library zeroes negative RATES below rtol, which must be decided on the reduced sum
            cc = g.integers(-3, 4, size=(Nk, Na, Na)).astype(numpy.float64) / 128.0
            rtol = 16.0
        RR = numpy.zeros((Na, Na), dtype=numpy.float64)
        werror = numpy.zeros(2)
        ssRedfieldRateMatrix(Na, Nk, KI, cc, rtol, werror, RR)
        return numpy.concatenate([RR.ravel(), werror]) if ph.get("noise") else RR

    def _system(self):
        import quantarhei as qr
        from quantarhei.builders.aggregate_test import TestAggregate
        agg = TestAggregate(name="trimer-2-env")
        agg.build()
        return agg

    def _tensor(self, ph, agg):
        from quantarhei.qm import RedfieldRelaxationTensor
        ham = agg.get_Hamiltonian()
        sbi = agg.get_SystemBathInteraction()
        if ph.get("td"):
            # the time-dependent subclass: operator form first, tensor form on request
            from quantarhei.qm import TDRedfieldRelaxationTensor
            RT = TDRedfieldRelaxationTensor(ham, sbi, as_operators=True)
            RT.convert_2_tensor()
            return numpy.asarray(RT.data)[::50].copy()
        RT = RedfieldRelaxationTensor(ham, sbi, as_operators=ph["as_ops"])
        if ph["as_ops"]:
            return numpy.concatenate([numpy.asarray(RT.Km, dtype=complex).ravel(),
                                      numpy.asarray(RT.Lm).ravel(), numpy.asarray(RT.Ld).ravel()])
        return numpy.asarray(RT.data).copy()

    # --------------------------------------------------- failure bookkeeping
    def crude_signature(self, program, oracle):
        return oracle

    def matches_finding(self, entry, program, oracle):
        return False

    def simplify(self, program):
        if any(w != 1.0 for w in program["weights"]):
            yield dict(program, weights=[1.0] * program["N"])
        if program["skew"]:
            yield dict(program, skew=False)
        if program["p_yield"] != 0.0:
            yield dict(program, p_yield=0.0)
        for n in (2, 3, 4):
            if n < program["N"]:
                yield dict(program, N=n, weights=[1.0] * n)
        ops = program["ops"]
        for i, ph in enumerate(ops):
            for key, val in (("nest", 0), ("red", "allreduce"), ("start", 0), ("collect", False), ("ri", False)):
                if key in ph and ph[key] != val:
                    alt = dict(ph)
                    if key == "start":
                        alt["stop"] = ph["stop"] - ph["start"]
                    alt[key] = val
                    new = list(ops)
                    new[i] = alt
                    yield dict(program, ops=new)
            if ph["op"] == "range" and ph["stop"] - ph["start"] > 3:
                new = list(ops)
                new[i] = dict(ph, stop=ph["start"] + (ph["stop"] - ph["start"]) // 2)
                yield dict(program, ops=new)
