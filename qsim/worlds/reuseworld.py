# -*- coding: utf-8 -*-
"""C15 -- propagation results are functions of their inputs only.

A run is a history of tensor constructions, propagator constructions,
propagations (density matrix, state vector, populations, HEOM), evolution
superoperator calculations and in-between computations on a pool of SHARED
objects.  Every object is described by a recipe (a JSON expression); a
planning pass resolves the history into self-contained recipe expressions,
each distinct expression is evaluated on freshly built twins in its own
pristine forked child BEFORE the history runs, and the history pass compares
every result with that reference.  Inputs are fingerprinted through public
accessors before and after every operation.
"""
import json
import os
import pickle
import select
import signal
import sys
import time

import numpy

from ..core import Violation, HarnessError, check, close, maxdiff, fingerprint

THEORIES = [("stR", {}), ("stR", {"as_operators": True}), ("stR", {"secular_relaxation": True}), ("stR", {"time_dependent": True}),
            ("stF", {}), ("stF", {"time_dependent": True}), ("cRF", {"coupling_cutoff": 50.0}),
            ("stR", {"time_dependent": True, "as_operators": True}), ("cRF", {"time_dependent": True}),
            ("neF", {"time_dependent": True})]
TOL = 1e-11


# ----------------------------------------------------------------------------
#  building things from recipes (used both by the reference children and by the history pass)
# ----------------------------------------------------------------------------
def build_system(spec):
    import quantarhei as qr
    n = spec["n"]
    ta = qr.TimeAxis(spec.get("t0", 0.0), spec["nt"], spec["dt"])
    mols = []
    with qr.energy_units("1/cm"):
        cf = None
        for i in range(n):
            m = qr.Molecule([0.0, spec["en"][i]])
            if cf is None or not spec.get("one_bath"):
                # "one_bath": every molecule gets the SAME correlation function object (the usual shortcut in user code)
                cf = qr.CorrelationFunction(ta, dict(ftype="OverdampedBrownian", reorg=spec["reorg"][i], cortime=spec["cortime"][i],
                                                     T=spec["T"], matsubara=20))
            m.set_transition_environment((0, 1), cf)
            m.set_dipole(0, 1, [1.0, 0.0, 0.0])
            mols.append(m)
        agg = qr.Aggregate(mols)
        for (i, j, v) in spec["J"]:
            agg.set_resonance_coupling(i, j, v)
    agg.build()
    return agg


def apply_edit(agg, ed):
    """The user gives one site another bath: a new correlation function goes into the bath matrix of the built system."""
    import quantarhei as qr
    sbi = agg.get_SystemBathInteraction()
    with qr.energy_units("1/cm"):
        cf = qr.CorrelationFunction(sbi.TimeAxis, dict(ftype="OverdampedBrownian", reorg=ed["reorg"], cortime=ed["cortime"], T=300, matsubara=20))
    sbi.CC.set_correlation_function(cf, [(ed["k"], ed["k"])])


def build_direct(nfun):
    """A system put together by hand: Hamiltonian, a bath matrix with room for two functions, system-bath interaction."""
    import quantarhei as qr
    from quantarhei.qm import SystemBathInteraction, ProjectionOperator
    from quantarhei.qm.corfunctions.cfmatrix import CorrelationFunctionMatrix
    time = qr.TimeAxis(0.0, 300, 1.0)
    with qr.energy_units("1/cm"):
        ham = qr.Hamiltonian(data=[[0.0, 0.0, 0.0], [0.0, 12000.0, 40.0], [0.0, 40.0, 12150.0]])
    ham.set_rwa([0, 1])
    cfm = CorrelationFunctionMatrix(time, 2, 2)
    sbi = SystemBathInteraction([ProjectionOperator(1, 1, dim=3), ProjectionOperator(2, 2, dim=3)], cfm)
    d = {"ham": ham, "cfm": cfm, "sbi": sbi, "time": time, "nfun": 0}
    for _ in range(nfun):
        direct_add_function(d)
    return d


def direct_add_function(d):
    import quantarhei as qr
    k = d["nfun"]
    with qr.energy_units("1/cm"):
        cf = qr.CorrelationFunction(d["time"], dict(ftype="OverdampedBrownian", reorg=[30.0, 80.0][k], cortime=[100.0, 60.0][k], T=300, matsubara=20))
    d["cfm"].set_correlation_function(cf, [(k, k)], k + 1)
    d["nfun"] = k + 1


def state_array(dim, st):
    rho = numpy.zeros((dim, dim), dtype=complex)
    k = 1 + st["k"] % (dim - 1)
    if st["kind"] == "site":
        rho[k, k] = 1.0
    else:
        l = 1 + (st["k"] + 1) % (dim - 1)
        v = numpy.zeros(dim, dtype=complex)
        v[k] = 1.0
        v[l] += 1.0j if l != k else 0.0
        v = v / numpy.linalg.norm(v)
        rho = numpy.outer(v, v.conj())
    return rho


def tensor_fields(RT):
    if getattr(RT, "as_operators", False):
        return {"Km": numpy.array(RT.Km), "Lm": numpy.array(RT.Lm), "Ld": numpy.array(RT.Ld)}
    return {"data": numpy.array(RT.data)}


class Built:
    """Lazily built objects of one evaluation (fresh twins)."""

    def __init__(self, systems):
        self.specs = systems
        self.sys = {}
        self.tensors = {}
        self.applied = {}
        self.ver = 0           # bath edits that precede the evaluated call
        self.tver = 0          # bath edits that preceded the construction of the tensor it uses
        self.tensor_built = False

    def advance(self, j, ver):
        eds = self.specs[j].get("edits", [])
        while self.applied[j] < min(ver, len(eds)):
            apply_edit(self.sys[j], eds[self.applied[j]])
            self.applied[j] += 1

    def system(self, j):
        if j not in self.sys:
            self.sys[j] = build_system(self.specs[j])
            self.applied[j] = 0
        self.advance(j, self.ver if self.tensor_built else min(self.tver, self.ver))
        return self.sys[j]

    def finish(self, j):
        """All edits that precede the evaluated call are in place from here on."""
        self.tensor_built = True
        if j in self.sys:
            self.advance(j, self.ver)

    def tensor(self, j, th, unit=None, recalc=True):
        import quantarhei as qr
        key = (j, th, unit, recalc)
        if key not in self.tensors:
            agg = self.system(j)
            self.tensors[key] = relaxation_tensor(agg, th, unit, recalc)
        self.finish(j)
        return self.tensors[key]


def relaxation_tensor(agg, th, unit, recalc=True):
    """get_RelaxationTensor, optionally requested inside a units context (a cut-off is then meant in those units) and
    optionally with the documented recalculate=False."""
    import quantarhei as qr
    name, kw = THEORIES[th]
    if not recalc:
        kw = dict(kw, recalculate=False)
    ta = agg.get_SystemBathInteraction().TimeAxis
    if unit is None:
        return agg.get_RelaxationTensor(ta, relaxation_theory=name, **kw)
    with qr.energy_units(unit):
        return agg.get_RelaxationTensor(ta, relaxation_theory=name, **kw)


def context_for(expr_ctx, ham):
    """Context manager for a propagation requested inside a basis context (or a null context)."""
    import contextlib
    import quantarhei as qr
    if not expr_ctx:
        return contextlib.nullcontext()
    if expr_ctx["kind"] == "ham":
        return qr.eigenbasis_of(ham)
    g = numpy.random.Generator(numpy.random.PCG64(expr_ctx["seed"]))
    a = g.uniform(-1, 1, size=(ham.dim, ham.dim))
    a = (a + a.T) / 2.0
    a[0, 1:] = 0.0       # the ground state stays apart (the rotating-wave blocks are not mixed)
    a[1:, 0] = 0.0
    a[0, 0] = -5.0
    return qr.eigenbasis_of(qr.qm.SelfAdjointOperator(data=a))


def evaluate(expr, systems, shared=None):
    """Evaluate one recipe expression; `shared` (history pass) supplies pool objects instead of fresh twins."""
    import quantarhei as qr
    B = shared if shared is not None else Built(systems)
    kind = expr["kind"]
    if shared is None:
        B.ver = expr.get("ver", 0)
        sub = expr.get("prop") if isinstance(expr.get("prop"), dict) else expr
        B.tver = sub.get("tver", B.ver)
        if kind not in ("tensor", "propagate_rdm", "eso") or (kind == "propagate_rdm" and expr["prop"]["th"] is None):
            B.tensor_built = True      # no tensor involved: all edits apply at once
    if kind == "tensor":
        RT, ham = (B.tensor(expr["sys"], expr["th"], expr.get("unit"), expr.get("recalc", True)) if shared is None
                   else shared.new_tensor(expr["sys"], expr["th"], expr.get("unit"), expr.get("recalc", True)))
        out = tensor_fields(RT)
        out["H"] = numpy.array(ham.data)
        return out
    if kind == "direct_tensor":
        from quantarhei.qm import FoersterRelaxationTensor, TDFoersterRelaxationTensor
        d = shared.direct() if shared is not None else build_direct(expr["nfun"])
        if expr["cls"] == "F":
            RT = FoersterRelaxationTensor(d["ham"], d["sbi"], pure_dephasing=True)
        else:
            RT = TDFoersterRelaxationTensor(d["ham"], d["sbi"])
        return {"data": numpy.array(RT.data)}
    if kind == "rwa_query":
        # a read-only request made under other units: the rotating-wave skeleton and data of the system's Hamiltonian
        agg = B.system(expr["sys"])
        H = agg.get_Hamiltonian()
        with qr.energy_units(expr["unit"]):
            sk = numpy.array(H.get_RWA_skeleton())
            dat = numpy.array(H.get_RWA_data())
        return {"skeleton": sk, "data": dat}
    if kind == "bad_set_rwa":
        agg = B.system(expr["sys"])
        agg.get_Hamiltonian().set_rwa([1, 2])          # refused: the first block has to start at zero
        return {"never": numpy.zeros(1)}
    if kind == "rates":
        agg = B.system(expr["sys"])
        return {"K": numpy.array(agg.get_RedfieldRateMatrix().data)}
    if kind == "thermal":
        agg = B.system(expr["sys"])
        return {"rho": numpy.array(agg.get_DensityMatrix(condition_type="thermal", temperature=300).data)}
    if kind == "propagate_rdm":
        prop = B.rdm_prop(expr["prop"]) if shared is not None else make_rdm_prop(B, expr["prop"])
        agg = B.system(expr["prop"]["sys"])
        dim = agg.get_Hamiltonian().dim
        rho = B.state(expr["prop"]["sys"], expr["state"]) if shared is not None else qr.ReducedDensityMatrix(data=state_array(dim, expr["state"]))
        if shared is None and expr["nref_setting"] > 1:
            prop.setDtRefinement(expr["nref_setting"])
        with context_for(expr.get("ctx"), agg.get_Hamiltonian()):
            if expr["nref_arg"] > 1:
                ev = prop.propagate(rho, Nref=expr["nref_arg"])
            else:
                ev = prop.propagate(rho)
        return {"rhot": numpy.array(ev.data)}
    if kind == "propagate_sv":
        agg = B.system(expr["sys"])
        ham = agg.get_Hamiltonian()
        prop = B.sv_prop(expr) if shared is not None else qr.qm.StateVectorPropagator(qr.TimeAxis(0.0, expr["nt"], expr["dt"]), ham)
        psi = qr.StateVector(ham.dim)
        v = numpy.zeros(ham.dim, dtype=complex)
        v[1 + expr["state"]["k"] % (ham.dim - 1)] = 1.0
        psi.data = v
        ev = prop.propagate(psi)
        return {"psit": numpy.array(ev.data)}
    if kind == "propagate_pop":
        from quantarhei.qm.propagators.poppropagator import PopulationPropagator
        agg = B.system(expr["sys"])
        if shared is not None:
            prop = B.pop_prop(expr)
        else:
            prop = PopulationPropagator(qr.TimeAxis(0.0, expr["nt"], expr["dt"]), agg.get_RedfieldRateMatrix().data)
        dim = agg.get_Hamiltonian().dim
        p0 = numpy.zeros(dim)
        p0[1 + expr["state"]["k"] % (dim - 1)] = 1.0
        return {"pops": numpy.array(prop.propagate(p0))}
    if kind == "pop_matrix":
        from quantarhei.qm.propagators.poppropagator import PopulationPropagator
        agg = B.system(expr["sys"])
        if shared is not None:
            prop = B.pop_prop(expr)
        else:
            prop = PopulationPropagator(qr.TimeAxis(0.0, expr["nt"], expr["dt"]), agg.get_RedfieldRateMatrix().data)
        sub = qr.TimeAxis(0.0, max(2, expr["nt"] // expr["m"]), expr["dt"] * expr["m"])
        res = prop.get_PropagationMatrix(sub, corrections=expr["corr"])
        out = {}
        if isinstance(res, tuple):
            out["U"] = numpy.array(res[0])
            rest = res[1] if isinstance(res[1], tuple) else (res[1],)
            for n, c in enumerate(rest):
                out["c%d" % n] = numpy.array(c)
        else:
            out["U"] = numpy.array(res)
        return out
    if kind == "propagate_heom":
        from quantarhei.qm.liouvillespace.heom import KTHierarchy, KTHierarchyPropagator
        agg = B.system(expr["sys"])
        ham = agg.get_Hamiltonian()
        if shared is not None:
            kp = B.heom_prop(expr)
        else:
            hy = KTHierarchy(ham, agg.get_SystemBathInteraction(), expr["depth"])
            kp = KTHierarchyPropagator(qr.TimeAxis(0.0, expr["nt"], expr["dt"]), hy)
        rho = B.state(expr["sys"], expr["state"]) if shared is not None else qr.ReducedDensityMatrix(data=state_array(ham.dim, expr["state"]))
        kw = {}
        if expr.get("free"):
            kw["free_hierarchy"] = True       # the documented variant used for memory kernels
        if expr.get("report"):
            kw["report_hierarchy"] = True
        ev = kp.propagate(rho, **kw)
        return {"rhot": numpy.array(ev.data)}
    if kind == "refused_heom":
        from quantarhei.qm.liouvillespace.heom import KTHierarchy, KTHierarchyPropagator
        agg = B.system(expr["sys"])
        H2 = B.plain_hamiltonian(expr["sys"]) if shared is not None else qr.Hamiltonian(data=numpy.array(agg.get_Hamiltonian().data))
        hy = KTHierarchy(H2, agg.get_SystemBathInteraction(), expr["depth"])
        kp = KTHierarchyPropagator(qr.TimeAxis(0.0, expr["nt"], 1.0), hy)
        rho = qr.ReducedDensityMatrix(data=state_array(H2.dim, {"kind": "site", "k": 0}))
        return {"rhot": numpy.array(kp.propagate(rho).data)}
    if kind == "eso":
        RT, ham = B.tensor(expr["sys"], expr["th"], expr.get("unit"), expr.get("recalc", True)) if shared is None else shared.get_tensor(expr["sys"], expr["th"])
        U = qr.qm.EvolutionSuperOperator(time=qr.TimeAxis(B.specs[expr["sys"]].get("t0", 0.0), expr["nt"], expr["dt"]), ham=ham, relt=RT, mode="all")
        U.set_dense_dt(expr["dense"])
        U.calculate()
        return {"U": numpy.array(U.data)}
    raise HarnessError("unknown expression kind " + kind)


def pure_dephasing(dim, kind):
    from quantarhei.qm import PureDephasing
    if not kind:
        return None
    gam = 1.0 / 150.0 if kind == "Lorentzian" else 1.0 / 150.0 ** 2
    d = numpy.zeros((dim, dim))
    for a in range(dim):
        for b in range(a + 1, dim):
            d[a, b] = d[b, a] = gam / (1.0 + 0.5 * (b - a - 1))
    return PureDephasing(d, dtype=kind)


def make_rdm_prop(B, pexpr):
    import quantarhei as qr
    agg = B.system(pexpr["sys"])
    axis = qr.TimeAxis(B.specs[pexpr["sys"]].get("t0", 0.0), pexpr["nt"], pexpr["dt"])
    pd = pure_dephasing(agg.get_Hamiltonian().dim, pexpr.get("pdeph"))
    if pexpr["th"] is None:
        if pd is None:
            return qr.ReducedDensityMatrixPropagator(axis, agg.get_Hamiltonian())
        return qr.ReducedDensityMatrixPropagator(axis, agg.get_Hamiltonian(), PDeph=pd)
    RT, ham = B.tensor(pexpr["sys"], pexpr["th"], pexpr.get("unit"), pexpr.get("recalc", True))
    if pd is None:
        return qr.ReducedDensityMatrixPropagator(axis, ham, RTensor=RT)
    return qr.ReducedDensityMatrixPropagator(axis, ham, RTensor=RT, PDeph=pd)


def fork_eval(expr, systems, timeout=120.0):
    rfd, wfd = os.pipe()
    sys.stdout.flush()
    sys.stderr.flush()
    pid = os.fork()
    if pid == 0:
        os.close(rfd)
        try:
            try:
                res = ("ok", evaluate(expr, systems))
            except BaseException as e:
                res = ("err", "%s: %s" % (type(e).__name__, e))
            data = pickle.dumps(res)
            off = 0
            while off < len(data):
                off += os.write(wfd, data[off:off + 65536])
        finally:
            os._exit(0)
    os.close(wfd)
    chunks = []
    deadline = time.monotonic() + timeout
    while True:
        left = deadline - time.monotonic()
        if left <= 0:
            os.kill(pid, signal.SIGKILL)
            break
        r, _, _ = select.select([rfd], [], [], min(left, 1.0))
        if r:
            b = os.read(rfd, 1 << 20)
            if not b:
                break
            chunks.append(b)
    os.close(rfd)
    os.waitpid(pid, 0)
    data = b"".join(chunks)
    if not data:
        raise HarnessError("reference child died for %s" % json.dumps(expr))
    return pickle.loads(data)


class World:
    name = "reuseworld"
    prop_id = "C15"
    level = "exploration"
    quick_runs = 480
    thorough_budget_s = 1200
    run_timeout = 600.0
    probe_min_runs = 300
    required_probes = ["propagator_reused", "state_reused", "tensor_reused_by_two_propagators", "heom_reused",
                       "system_used_by_two_theories", "time_dependent_tensor", "operator_form_tensor", "cutoff_theory",
                       "refinement_setting_sticky", "sv_reused", "pop_reused", "eso_after_propagation", "in_between_computation",
                       "same_call_repeated", "propagation_matrix_with_corrections", "propagation_inside_basis_context",
                       "same_propagator_in_two_different_contexts", "tensor_requested_inside_units_context", "pure_dephasing_propagator",
                       "refused_call_in_history", "hierarchy_shared_by_two_propagators",
                       "tensor_requested_without_recalculation_after_another", "tensor_with_inhomogeneous_term",
                       "inhomogeneous_tensor_shared_by_two_propagators", "ordinary_heom_run_after_free_hierarchy_run",
                       "bath_time_axis_not_starting_at_zero", "bath_edited_between_calls",
                       "function_added_to_a_free_slot_of_the_bath_matrix",
                       "same_tensor_class_built_before_and_after_filling_the_free_slot"]
    required_faults = []
    components = {
        "real": ["Aggregate/Molecule builders", "OpenSystem.get_RelaxationTensor (stR TI/TD, operator form, secular; stF TI/TD; cRF with cut-off)",
                 "ReducedDensityMatrixPropagator, StateVectorPropagator, PopulationPropagator, KTHierarchy + KTHierarchyPropagator, "
                 "EvolutionSuperOperator", "get_RedfieldRateMatrix, thermal density matrix (in-between computations)"],
        "stub": [],
        "reference_model": ["the same call on twins rebuilt from recipes in a pristine forked child (one child per distinct expression)"],
    }
    assumptions = [
        "a propagator's refinement factor (setDtRefinement, or propagate(Nref>1) as documented) is a setting of the propagator and part of the input",
        "only completing calls are generated; failing calls are not part of C15",
        "theories that are broken on the pinned tree for every input (modified Redfield) are not in the catalogue; "
        "non-equilibrium Foerster only in its time-dependent form (the one with an inhomogeneous term)",
    ]
    rule = ("run = seeded history (<=18 ops) of tensor constructions (10 theory/option combinations, with and without recalculate=False, "
            "inside and outside units contexts), propagator constructions (several per tensor / per hierarchy) and "
            "propagations (RDM, state vector, population, HEOM), evolution-superoperator calculations and in-between computations on "
            "shared dimer/trimer systems, propagators, tensors, hierarchies and states; non-trivial = >=1 object used as an input "
            "at least twice; distinct = distinct event-log digests among non-trivial runs")

    def gen(self, rng, tier):
        nsys = rng.choice([1, 1, 2])
        systems = []
        for _ in range(nsys):
            n = rng.choice([2, 2, 3])
            systems.append({"n": n, "nt": 200, "dt": 2.0, "T": 300, "t0": rng.choice([0.0, 0.0, 0.0, 10.0, 4.0]), "one_bath": rng.random() < 0.4,
                            "en": [round(rng.uniform(11800, 12300), 1) for _ in range(n)],
                            "reorg": [round(rng.uniform(10, 60), 1) for _ in range(n)],
                            "cortime": [round(rng.uniform(40, 150), 1) for _ in range(n)],
                            "J": [(i, j, round(rng.uniform(20, 150), 1)) for i in range(n) for j in range(i + 1, n)]})
        ths = list(range(len(THEORIES)))
        if rng.random() < 0.6:
            ths = rng.sample(ths, rng.randint(1, 3))
        n = rng.randint(3, 12)
        ops = []
        kinds = ["rwa_query", "bad_set_rwa", "edit_bath", "direct_tensor", "direct_edit",
                 "tensor", "tensor", "make_rdm", "make_rdm", "propagate_rdm", "propagate_rdm", "propagate_rdm", "set_ref", "rates",
                 "thermal", "propagate_sv", "propagate_pop", "pop_matrix", "make_heom", "propagate_heom", "propagate_heom", "eso",
                 "propagate_rdm", "set_ref", "propagate_sv", "propagate_sv", "propagate_pop"]
        if rng.random() < 0.5:
            kinds = [k for k in kinds if k not in rng.sample(["propagate_sv", "propagate_pop", "pop_matrix", "make_heom", "eso", "rates", "thermal"], 3)]
        # most histories start with the usual pipeline (tensor -> propagator -> propagation), so that later ops find objects to reuse
        pipeline = ["tensor", "make_rdm", "propagate_rdm"] if rng.random() < 0.65 else []
        # ... or with two propagators (two time axes) on ONE tensor used alternately with different initial states
        alternate = bool(pipeline) and rng.random() < 0.3
        if alternate:
            pipeline = ["tensor", "make_rdm", "make_rdm", "propagate_rdm", "propagate_rdm", "propagate_rdm"]
            alt_th = rng.choice(ths + [9, 9, 3, 5])
        # ... or with one hierarchy, a free-hierarchy run between ordinary ones and a second propagator attached to it
        heom_pipe = (not pipeline) and rng.random() < 0.45
        if heom_pipe:
            pipeline = ["make_heom", "propagate_heom", "propagate_heom", "make_heom", "propagate_heom"]
        # ... or with the hand-made system: a Foerster-type tensor before and after its second bath function is set
        direct_pipe = (not pipeline) and rng.random() < 0.45
        if direct_pipe:
            pipeline = ["direct_tensor", "direct_edit", "direct_tensor"]
            dcls = rng.choice(["F", "TDF"])
        for step in range(n + len(pipeline)):
            k = pipeline[step] if step < len(pipeline) else rng.choice(kinds)
            op = {"op": k, "sys": 0 if step < len(pipeline) else rng.randrange(nsys), "a": rng.randrange(16), "b": rng.randrange(16)}
            if alternate and step < len(pipeline):
                op["a"] = [0, 0, 0, 0, 1, 0][step]
            if k == "tensor":
                op["th"] = alt_th if (alternate and step == 0) else rng.choice(ths)
                op["unit"] = rng.choice([None, None, "1/cm", "1/cm", "eV"])
                if rng.random() < 0.3:
                    op["recalc"] = False
            elif k == "make_rdm":
                op["nt"] = rng.choice([20, 50, 100])
                op["mult"] = rng.choice([1, 1, 2])
                op["free"] = rng.random() < 0.15
                op["pdeph"] = rng.choice([None, None, "Lorentzian", "Gaussian"])
            elif k in ("propagate_rdm",):
                op["state"] = {"kind": rng.choice(["site", "site", "coh"]), "k": rng.randrange(4)}
                op["nref_arg"] = rng.choice([1, 1, 2, 3])
                op["new_state"] = rng.random() < 0.4
                op["ctx"] = rng.choice([None, None, None, {"kind": "ham"}, {"kind": "other", "seed": rng.randrange(4)}])
                if alternate and step < len(pipeline):
                    op["state"] = {"kind": "site", "k": 1 if step == 4 else 0}
                    op["new_state"] = False
                    op["ctx"] = None
            elif k == "set_ref":
                op["n"] = rng.choice([1, 2, 3, 5])
            elif k == "rwa_query":
                op["unit"] = rng.choice(["1/cm", "eV", "1/cm"])
            elif k == "direct_tensor":
                op["cls"] = dcls if (direct_pipe and step < len(pipeline)) else rng.choice(["F", "F", "TDF"])
            elif k == "edit_bath":
                op["k"] = rng.randrange(3)
                op["reorg"] = round(rng.uniform(20, 90), 1)
                op["cortime"] = round(rng.uniform(40, 120), 1)
            elif k in ("propagate_sv", "propagate_pop", "pop_matrix"):
                op["state"] = {"kind": "site", "k": rng.randrange(4)}
                op["nt"] = rng.choice([20, 20, 50])
                op["new"] = rng.random() < 0.2
                op["corr"] = rng.choice([-1, -1, 0, 1, 2])
                op["m"] = rng.choice([1, 2, 5])
            elif k == "make_heom":
                op["depth"] = rng.choice([1, 2, 2, 3])
                op["nt"] = rng.choice([20, 40])
                op["norwa"] = rng.random() < 0.2
                op["share"] = rng.random() < 0.4
                if heom_pipe and step < len(pipeline):
                    op["norwa"], op["share"], op["depth"] = False, step == 3, rng.choice([1, 2])
            elif k == "propagate_heom":
                op["state"] = {"kind": rng.choice(["site", "coh"]), "k": rng.randrange(4)}
                op["new_state"] = rng.random() < 0.4
                op["free"] = rng.random() < 0.3
                op["report"] = rng.random() < 0.2
                if heom_pipe and step < len(pipeline):
                    op["free"], op["a"] = (step == 1), 0
            elif k == "eso":
                op["nt"] = rng.choice([5, 10])
                op["dense"] = rng.choice([1, 2])
            ops.append(op)
        return {"systems": systems, "ops": ops}

    def run(self, program, ctx):
        Runner(program, ctx).go()

    def crude_signature(self, program, oracle):
        return oracle

    def matches_finding(self, entry, program, oracle):
        need = entry.get("needs", {})
        ops = program["ops"]
        for kind in need.get("op_kinds", []):
            if not any(o["op"] == kind for o in ops):
                return False
        return True

    def simplify(self, program):
        if len(program["systems"]) > 1:
            yield dict(program, systems=program["systems"][:1])
        s0 = program["systems"][0]
        if s0["n"] > 2:
            ns = dict(s0, n=2, en=s0["en"][:2], reorg=s0["reorg"][:2], cortime=s0["cortime"][:2],
                      J=[x for x in s0["J"] if x[0] < 2 and x[1] < 2])
            yield dict(program, systems=[ns] + program["systems"][1:])
        ops = program["ops"]
        for i, op in enumerate(ops):
            for key, val in (("a", 0), ("b", 0), ("th", 0), ("nref_arg", 1), ("sys", 0), ("mult", 1)):
                if key in op and op[key] != val:
                    new = list(ops)
                    new[i] = dict(op, **{key: val})
                    yield dict(program, ops=new)


class Runner:
    """Planning pass -> reference children -> history pass."""

    def __init__(self, program, ctx):
        import quantarhei as qr
        self.qr = qr
        self.m = qr.Manager()
        self.p = program
        self.ctx = ctx
        self.systems = program["systems"]

    # ---------------------------------------------------------------- planning
    def plan(self):
        """Resolve the history into self-contained expressions (no library calls)."""
        S = self.systems
        tensors = []      # (sys, th)
        props = []        # dict(sys, th, nt, dt, nref)
        heoms = []        # dict(sys, depth, nt, dt)
        svs, pops = {}, {}
        states = {}       # (sys, json(state)) -> exists
        plan = []
        dfun = [1]                         # bath functions set in the hand-made system (it starts with one)
        dseen = {}
        ver = [0] * len(S)                 # number of bath edits made so far, per system
        for sp in S:
            sp["edits"] = []

        def V(expr, j, tver=None):
            """Stamp an expression with the bath version it sees (and the one its tensor was built at)."""
            if ver[j]:
                expr["ver"] = ver[j]
            if tver is not None and tver != ver[j]:
                (expr["prop"] if isinstance(expr.get("prop"), dict) else expr)["tver"] = tver
            return expr

        for op in self.p["ops"]:
            k = op["op"]
            j = op["sys"] % len(S)
            spec = S[j]
            if k == "direct_tensor":
                plan.append(("direct_tensor", {"kind": "direct_tensor", "cls": op["cls"], "nfun": dfun[0]}, None))
                dseen.setdefault(op["cls"], set()).add(dfun[0])
                if len(dseen[op["cls"]]) >= 2:
                    self.ctx.probe("same_tensor_class_built_before_and_after_filling_the_free_slot")
            elif k == "direct_edit":
                if dfun[0] >= 2:
                    plan.append(("noop", None, None))
                else:
                    dfun[0] += 1
                    plan.append(("direct_edit", None, None))
            elif k == "edit_bath":
                ed = {"k": op["k"] % spec["n"], "reorg": op["reorg"], "cortime": op["cortime"]}
                spec["edits"].append(ed)
                ver[j] += 1
                for h in heoms:
                    if h["sys"] == j:
                        h["stale"] = True       # a hierarchy describes the bath it was built from
                plan.append(("edit_bath", None, (j, ed)))
            elif k == "rwa_query":
                plan.append(("pure", V({"kind": "rwa_query", "sys": j, "unit": op["unit"]}, j), None))
            elif k == "bad_set_rwa":
                plan.append(("refused_set_rwa", V({"kind": "bad_set_rwa", "sys": j}, j), None))
            elif k == "tensor":
                unit = op.get("unit")
                expr = {"kind": "tensor", "sys": j, "th": op["th"], "unit": unit}
                recalc = op.get("recalc", True)
                if not recalc:
                    expr["recalc"] = False
                tensors.append((j, op["th"], unit, recalc, ver[j]))
                plan.append(("tensor", V(expr, j), len(tensors) - 1))
            elif k == "rates":
                plan.append(("pure", V({"kind": "rates", "sys": j}, j), None))
            elif k == "thermal":
                plan.append(("pure", V({"kind": "thermal", "sys": j}, j), None))
            elif k == "make_rdm":
                mine = [t for t in tensors if t[0] == j]
                if op.get("free") or not mine:
                    th, tslot = None, None
                else:
                    tslot = [n for n, t in enumerate(tensors) if t[0] == j][op["a"] % len(mine)]
                    th = tensors[tslot][1]
                nt = min(op["nt"], spec["nt"] // op["mult"])
                td = th is not None and THEORIES[th][1].get("time_dependent")
                props.append({"sys": j, "th": th, "unit": None if tslot is None else tensors[tslot][2],
                              "recalc": True if tslot is None else tensors[tslot][3], "tver": 0 if tslot is None else tensors[tslot][4],
                              "tslot": tslot, "nt": nt,
                              "dt": spec["dt"] * op["mult"], "nref": 1,
                              "pdeph": None if (td or th is None) else op.get("pdeph")})
                plan.append(("make_rdm", None, len(props) - 1))
            elif k == "set_ref":
                if not props:
                    plan.append(("noop", None, None))
                    continue
                pi = op["a"] % len(props)
                if props[pi]["th"] is not None and THEORIES[props[pi]["th"]][1].get("time_dependent"):
                    plan.append(("noop", None, None))     # a time-dependent tensor fixes the step; refinement is not generated
                    continue
                props[pi]["nref"] = op["n"]
                plan.append(("set_ref", op["n"], pi))
            elif k == "propagate_rdm":
                if not props:
                    plan.append(("noop", None, None))
                    continue
                pi = op["a"] % len(props)
                P = props[pi]
                # a time-dependent tensor lives on the bath time axis: refinement is not generated for it
                td = P["th"] is not None and THEORIES[P["th"]][1].get("time_dependent")
                nref_arg = 1 if td else op["nref_arg"]
                nref_setting = 1 if td else P["nref"]
                expr = {"kind": "propagate_rdm", "prop": {"sys": P["sys"], "th": P["th"], "unit": P["unit"], "nt": P["nt"], "dt": P["dt"],
                                                          "pdeph": P.get("pdeph")},
                        "state": op["state"], "nref_setting": nref_setting, "nref_arg": nref_arg, "ctx": op.get("ctx")}
                if not P.get("recalc", True):
                    expr["prop"]["recalc"] = False
                V(expr, P["sys"], P["tver"] if P["th"] is not None else None)
                if nref_arg > 1:
                    P["nref"] = nref_arg            # documented: propagate(Nref>1) sets the refinement
                plan.append(("propagate_rdm", expr, (pi, bool(op["new_state"]))))
            elif k in ("propagate_sv", "propagate_pop"):
                expr = {"kind": k, "sys": j, "nt": op["nt"], "dt": spec["dt"], "state": op["state"]}
                plan.append((k, V(expr, j), bool(op["new"])))
            elif k == "pop_matrix":
                expr = {"kind": "pop_matrix", "sys": j, "nt": op["nt"], "dt": spec["dt"], "corr": op["corr"], "m": op["m"]}
                plan.append((k, V(expr, j), bool(op["new"])))
            elif k == "make_heom":
                if op.get("norwa"):
                    # a hierarchy for a Hamiltonian built from a matrix (no rotating-wave reference): the constructor of the
                    # propagator refuses it; a refused call must leave the Hamiltonian it was given alone
                    plan.append(("refused_heom", {"kind": "refused_heom", "sys": j, "depth": op["depth"], "nt": op["nt"]}, None))
                    continue
                mine = [h for h in heoms if h["sys"] == j and not h.get("stale")]
                if op.get("share") and mine:
                    # a second propagator (another time axis) attached to a hierarchy that already has one
                    old = mine[op["a"] % len(mine)]
                    heoms.append({"sys": j, "depth": old["depth"], "nt": op["nt"] + 7, "dt": 1.0, "hy": old["hy"]})
                else:
                    heoms.append({"sys": j, "depth": op["depth"], "nt": op["nt"], "dt": 1.0, "hy": len(set(h["hy"] for h in heoms))})
                plan.append(("make_heom", None, len(heoms) - 1))
            elif k == "propagate_heom":
                live = [n for n, h in enumerate(heoms) if not h.get("stale")]
                if not live:
                    plan.append(("noop", None, None))
                    continue
                hi = live[op["a"] % len(live)]
                Hh = heoms[hi]
                expr = V({"kind": "propagate_heom", "sys": Hh["sys"], "depth": Hh["depth"], "nt": Hh["nt"], "dt": Hh["dt"], "state": op["state"]}, Hh["sys"])
                if op.get("free"):
                    expr["free"] = True
                if op.get("report"):
                    expr["report"] = True
                plan.append(("propagate_heom", expr, (hi, bool(op["new_state"]))))
            elif k == "eso":
                mine = [n for n, t in enumerate(tensors) if t[0] == j and not THEORIES[t[1]][1].get("time_dependent")]
                if not mine:
                    plan.append(("noop", None, None))
                    continue
                tslot = mine[op["a"] % len(mine)]
                expr = {"kind": "eso", "sys": j, "th": tensors[tslot][1], "unit": tensors[tslot][2], "nt": op["nt"], "dt": spec["dt"] * 5,
                        "dense": op["dense"]}
                if not tensors[tslot][3]:
                    expr["recalc"] = False
                plan.append(("eso", V(expr, j, tensors[tslot][4]), tslot))
            else:
                plan.append(("noop", None, None))
        self.plan_tensors, self.plan_props, self.plan_heoms = tensors, props, heoms
        return plan

    # ---------------------------------------------------------------- fingerprints of inputs
    def fp_system(self, agg):
        H = agg.get_Hamiltonian()
        sbi = agg.get_SystemBathInteraction()
        parts = [numpy.array(H.data), numpy.array(sbi.KK), numpy.array(sbi.TimeAxis.data),
                 numpy.array([sbi.TimeAxis.start, sbi.TimeAxis.step, sbi.TimeAxis.length], dtype=float)]
        if sbi.TimeAxis.start != 0.0:
            self.ctx.probe("bath_time_axis_not_starting_at_zero")
        flags = (bool(getattr(H, "_has_remainder_coupling", False)), bool(H.is_basis_protected), bool(H.has_rwa),
                 None if H.rwa_indices is None else [int(x) for x in H.rwa_indices], H.get_current_basis())
        for i in range(sbi.N):
            parts.append(numpy.array(sbi.get_coft(i, i))[:50])
        return (parts, repr(flags))

    def fp_all(self):
        """Observable data (arrays, compared up to rounding) and flags (compared exactly) of everything in the pool."""
        out = {}
        for j, agg in self.shared.sys.items():
            out["sys%d" % j] = self.fp_system(agg)
        for n, (RT, ham) in enumerate(self.shared.tensor_list):
            f = tensor_fields(RT)
            out["tensor%d" % n] = ([f[k] for k in sorted(f)], repr((RT.get_current_basis(), bool(RT.is_basis_protected))))
        for key, rho in self.shared.states.items():
            out["state%s" % (key,)] = ([numpy.array(rho.data)], repr(rho.get_current_basis()))
        for key, pp in self.shared.pop_props.items():
            out["pop%s" % (key,)] = ([numpy.array(pp.KK)], "")
        for j, H2 in self.shared.plain.items():
            out["plainH%d" % j] = ([numpy.array(H2.data)], repr((bool(H2.has_rwa), None if H2.rwa_indices is None else [int(x) for x in H2.rwa_indices],
                                                              bool(H2.is_basis_protected), H2.get_current_basis())))
        for n, hy in enumerate(self.shared.heom_hy):
            out["heom%d" % n] = ([numpy.array(hy.hinds), numpy.array(hy.Gamma)], repr(hy.hsize))
        return out

    @staticmethod
    def same_inputs(a, b):
        if a is None or b is None or a[1] != b[1] or len(a[0]) != len(b[0]):
            return False
        for x, y in zip(a[0], b[0]):
            x, y = numpy.asarray(x), numpy.asarray(y)
            if x.shape != y.shape:
                return False
            sc = max(1e-300, float(numpy.max(numpy.abs(x))) if x.size else 1.0)
            if not close(x.astype(complex), y.astype(complex), rtol=1e-12, scale=sc):
                return False
        return True

    def manager_state(self):
        m = self.m
        return (m.get_current_units("energy"), m.get_current_basis(), len(m.basis_stack), sorted(m.basis_registered.keys()),
                m._in_eigenbasis_of_context, m._in_energy_units_context, m.current_basis_operator is None)

    # ---------------------------------------------------------------- go
    def go(self):
        plan = self.plan()
        # ---- reference pass: every distinct expression in its own pristine child
        refs = {}
        for (k, expr, aux) in plan:
            if expr is None or k in ("set_ref",):
                continue
            key = json.dumps(expr, sort_keys=True)
            if key not in refs:
                status, val = fork_eval(expr, self.systems)
                if status != "ok":
                    # a call that does not complete on fresh inputs is outside C15
                    refs[key] = None
                    self.ctx.probe("reference_call_fails")
                else:
                    refs[key] = val
        # ---- history pass on shared objects
        self.shared = Shared(self.systems, self)
        if any(k == "refused_heom" for (k, e, a) in plan):
            for j in range(len(self.systems)):
                self.shared.plain_hamiltonian(j)       # exists before any call it is handed to
        m0 = self.manager_state()
        used = {}
        seen_exprs = set()
        reuse = 0
        self.ctx.ev("cfg", len(self.systems), [s["n"] for s in self.systems])
        for i, (k, expr, aux) in enumerate(plan):
            self.ctx.step()
            if k == "noop":
                self.ctx.ev(i, "noop")
                continue
            if k == "direct_edit":
                direct_add_function(self.shared.direct())
                self.ctx.probe("function_added_to_a_free_slot_of_the_bath_matrix")
                self.ctx.ev(i, k)
                continue
            if k == "edit_bath":
                j, ed = aux
                apply_edit(self.shared.system(j), ed)
                self.ctx.probe("bath_edited_between_calls")
                self.ctx.ev(i, k, j, ed["k"])
                self.ctx.cov(k, ed["k"])
                continue          # the user changed an input on purpose: nothing to compare here
            before = self.fp_all()
            if k == "make_rdm":
                P = self.plan_props[aux]
                self.shared.add_rdm_prop(P)
                if P["tslot"] is not None:
                    used["tensor%d" % P["tslot"]] = used.get("tensor%d" % P["tslot"], 0) + 1
                    if used["tensor%d" % P["tslot"]] >= 2:
                        self.ctx.probe("tensor_reused_by_two_propagators")
                        if THEORIES[P["th"]][0] == "neF":
                            self.ctx.probe("inhomogeneous_tensor_shared_by_two_propagators")
                        reuse += 1
                self.ctx.ev(i, k, aux)
                self.ctx.cov(k, P["th"], P["nt"], P["dt"])
            elif k == "make_heom":
                self.shared.add_heom(self.plan_heoms[aux])
                self.ctx.ev(i, k, aux)
                self.ctx.cov(k, self.plan_heoms[aux]["depth"])
            elif k == "set_ref":
                self.shared.rdm_props[aux].setDtRefinement(expr)
                self.ctx.probe("refinement_setting_sticky")
                self.ctx.ev(i, k, aux, expr)
                self.ctx.cov(k, expr)
            else:
                key = json.dumps(expr, sort_keys=True)
                ref = refs[key]
                if ref is None:
                    # the call does not complete on fresh inputs: it is a refused call; here it may fail or not, but it
                    # must not change what it was given (checked below with all other inputs)
                    self.shared.current = (k, expr, aux)
                    try:
                        evaluate(expr, self.systems, shared=self.shared)
                        outcome = "completed"
                    except HarnessError:
                        raise
                    except Exception as e:
                        outcome = type(e).__name__
                    self.ctx.probe("refused_call_in_history")
                    self.ctx.ev(i, k, "reference-fails", outcome)
                    after = self.fp_all()
                    for name, f in before.items():
                        check(self.same_inputs(after.get(name), f), "input-changed",
                              lambda: "op %d (%s, a call that fails on fresh inputs): object '%s' changed" % (i, k, name))
                    check(self.manager_state() == m0, "manager-state-changed",
                          lambda: "op %d (%s): Manager state %r -> %r" % (i, k, m0, self.manager_state()))
                    continue
                self.shared.current = (k, expr, aux)
                try:
                    got = evaluate(expr, self.systems, shared=self.shared)
                except HarnessError:
                    raise
                except Exception as e:
                    raise Violation("call-fails-after-history", "op %d (%s): completes on fresh inputs but raised %s: %s after this history"
                                    % (i, k, type(e).__name__, e))
                for name in ref:
                    check(name in got, "result-depends-on-history",
                          lambda: "op %d (%s %s): the result has no '%s' (fields %s), the same call on fresh inputs has"
                          % (i, k, json.dumps(expr, sort_keys=True)[:200], name, sorted(got)))
                    a, b = numpy.asarray(got[name]), numpy.asarray(ref[name])
                    sc = max(1e-300, float(numpy.max(numpy.abs(b))) if b.size else 1.0)
                    same = a.shape == b.shape and (numpy.array_equal(a, b, equal_nan=True) or
                                                   close(a.astype(complex), b.astype(complex), rtol=TOL, scale=sc))
                    check(same, "result-depends-on-history",
                          lambda: "op %d (%s %s): result '%s' differs from the same call on fresh inputs: %s"
                          % (i, k, json.dumps(expr, sort_keys=True)[:200], name,
                             maxdiff(a.astype(complex), b.astype(complex)) if a.shape == b.shape else "shape %r vs %r" % (a.shape, b.shape)))
                # probes
                if key in seen_exprs:
                    self.ctx.probe("same_call_repeated")
                    reuse += 1
                seen_exprs.add(key)
                if k == "tensor":
                    name, kw = THEORIES[expr["th"]]
                    if kw.get("time_dependent"):
                        self.ctx.probe("time_dependent_tensor")
                    if kw.get("as_operators"):
                        self.ctx.probe("operator_form_tensor")
                    if "coupling_cutoff" in kw:
                        self.ctx.probe("cutoff_theory")
                    if expr.get("unit"):
                        self.ctx.probe("tensor_requested_inside_units_context")
                    if expr.get("recalc") is False and used.get("sys%d" % expr["sys"], 0) >= 1:
                        self.ctx.probe("tensor_requested_without_recalculation_after_another")
                    if name == "neF":
                        self.ctx.probe("tensor_with_inhomogeneous_term")
                    u = used.setdefault("systh%d" % expr["sys"], set())
                    u.add(name)
                    if len(u) >= 2:
                        self.ctx.probe("system_used_by_two_theories")
                    used["sys%d" % expr["sys"]] = used.get("sys%d" % expr["sys"], 0) + 1
                    if used["sys%d" % expr["sys"]] >= 2:
                        reuse += 1
                elif k == "propagate_rdm":
                    pi, _ = aux
                    if expr.get("ctx"):
                        self.ctx.probe("propagation_inside_basis_context")
                        cs = used.setdefault("ctxs%d" % pi, set())
                        cs.add(json.dumps(expr["ctx"], sort_keys=True))
                        if len(cs) >= 2:
                            self.ctx.probe("same_propagator_in_two_different_contexts")
                    used["prop%d" % pi] = used.get("prop%d" % pi, 0) + 1
                    if used["prop%d" % pi] >= 2:
                        self.ctx.probe("propagator_reused")
                        reuse += 1
                    if self.shared.last_state_reused:
                        self.ctx.probe("state_reused")
                        reuse += 1
                elif k == "propagate_heom":
                    hi, _ = aux
                    used["heom%d" % hi] = used.get("heom%d" % hi, 0) + 1
                    if used["heom%d" % hi] >= 2:
                        self.ctx.probe("heom_reused")
                        reuse += 1
                    fr = used.setdefault("heomfree%d" % hi, [])
                    fr.append(bool(expr.get("free")))
                    if len(fr) >= 2 and fr[-1] is False and any(fr[:-1]):
                        self.ctx.probe("ordinary_heom_run_after_free_hierarchy_run")
                elif k == "propagate_sv":
                    if self.shared.last_prop_reused:
                        self.ctx.probe("sv_reused")
                        reuse += 1
                elif k in ("propagate_pop", "pop_matrix"):
                    if self.shared.last_prop_reused:
                        self.ctx.probe("pop_reused")
                        reuse += 1
                    if k == "pop_matrix" and expr["corr"] >= 0:
                        self.ctx.probe("propagation_matrix_with_corrections")
                elif k == "eso":
                    if any(x.startswith("prop") for x in used):
                        self.ctx.probe("eso_after_propagation")
                elif k == "pure":
                    self.ctx.probe("in_between_computation")
                self.ctx.ev(i, k, fingerprint(*[numpy.asarray(got[n]) for n in sorted(got)]))
                self.ctx.cov(k, expr.get("th"), expr.get("prop", {}).get("th") if isinstance(expr.get("prop"), dict) else None,
                             expr.get("nref_arg"), expr.get("nref_setting"), expr.get("depth"), reuse > 0)
            # inputs unchanged: everything that existed before the op
            after = self.fp_all()
            for name, f in before.items():
                check(self.same_inputs(after.get(name), f), "input-changed",
                      lambda: "op %d (%s): object '%s' passed in or kept in the pool changed (fingerprint of its public data / flags)" % (i, k, name))
            check(self.manager_state() == m0, "manager-state-changed",
                  lambda: "op %d (%s): Manager state %r -> %r" % (i, k, m0, self.manager_state()))
        self.ctx.nontrivial = reuse >= 1


class Shared:
    """The pool of shared objects of the history pass."""

    def __init__(self, systems, runner):
        self.specs = systems
        self.r = runner
        self.sys = {}
        self.tensor_list = []
        self.tensor_by_key = {}
        self.rdm_props = []
        self.states = {}
        self.heom_hy = []
        self.heom_props = []
        self.sv_props = {}
        self.pop_props = {}
        self.plain = {}
        self.current = None
        self.last_state_reused = False
        self.last_prop_reused = False

    def system(self, j):
        if j not in self.sys:
            self.sys[j] = build_system(self.specs[j])
        return self.sys[j]

    def direct(self):
        if getattr(self, "_direct", None) is None:
            self._direct = build_direct(1)
        return self._direct

    def plain_hamiltonian(self, j):
        qr = self.r.qr
        if j not in self.plain:
            self.plain[j] = qr.Hamiltonian(data=numpy.array(self.system(j).get_Hamiltonian().data))
        return self.plain[j]

    def new_tensor(self, j, th, unit=None, recalc=True):
        agg = self.system(j)
        RT, ham = relaxation_tensor(agg, th, unit, recalc)
        self.tensor_list.append((RT, ham))
        return RT, ham

    def get_tensor(self, j, th):
        k, expr, tslot = self.current
        return self.tensor_list[tslot]

    def add_rdm_prop(self, P):
        qr = self.r.qr
        agg = self.system(P["sys"])
        axis = qr.TimeAxis(self.specs[P["sys"]].get("t0", 0.0), P["nt"], P["dt"])
        pd = pure_dephasing(agg.get_Hamiltonian().dim, P.get("pdeph"))
        kw = {} if pd is None else {"PDeph": pd}
        if P["tslot"] is None:
            prop = qr.ReducedDensityMatrixPropagator(axis, agg.get_Hamiltonian(), **kw)
        else:
            RT, ham = self.tensor_list[P["tslot"]]
            prop = qr.ReducedDensityMatrixPropagator(axis, ham, RTensor=RT, **kw)
        if pd is not None:
            self.r.ctx.probe("pure_dephasing_propagator")
        self.rdm_props.append(prop)

    def rdm_prop(self, pexpr):
        k, expr, (pi, new_state) = self.current
        return self.rdm_props[pi]

    def state(self, j, st):
        qr = self.r.qr
        k, expr, aux = self.current
        new_state = aux[1]
        key = (j, json.dumps(st, sort_keys=True))
        dim = self.system(j).get_Hamiltonian().dim
        if new_state or key not in self.states:
            self.states[key] = qr.ReducedDensityMatrix(data=state_array(dim, st))
            self.last_state_reused = False
        else:
            self.last_state_reused = True
        return self.states[key]

    def add_heom(self, Hh):
        from quantarhei.qm.liouvillespace.heom import KTHierarchy, KTHierarchyPropagator
        qr = self.r.qr
        agg = self.system(Hh["sys"])
        if Hh["hy"] < len(self.heom_hy):
            hy = self.heom_hy[Hh["hy"]]
            self.r.ctx.probe("hierarchy_shared_by_two_propagators")
        else:
            if Hh["hy"] != len(self.heom_hy):
                raise HarnessError("hierarchy numbering")
            hy = KTHierarchy(agg.get_Hamiltonian(), agg.get_SystemBathInteraction(), Hh["depth"])
            self.heom_hy.append(hy)
        self.heom_props.append(KTHierarchyPropagator(qr.TimeAxis(0.0, Hh["nt"], Hh["dt"]), hy))

    def heom_prop(self, expr):
        k, e, (hi, new_state) = self.current
        return self.heom_props[hi]

    def sv_prop(self, expr):
        qr = self.r.qr
        k, e, new = self.current
        key = (expr["sys"], expr["nt"])
        if new or key not in self.sv_props:
            self.sv_props[key] = qr.qm.StateVectorPropagator(qr.TimeAxis(0.0, expr["nt"], expr["dt"]), self.system(expr["sys"]).get_Hamiltonian())
            self.last_prop_reused = False
        else:
            self.last_prop_reused = True
        return self.sv_props[key]

    def pop_prop(self, expr):
        from quantarhei.qm.propagators.poppropagator import PopulationPropagator
        qr = self.r.qr
        k, e, new = self.current
        key = (expr["sys"], expr["nt"], expr.get("ver", 0))
        if new or key not in self.pop_props:
            self.pop_props[key] = PopulationPropagator(qr.TimeAxis(0.0, expr["nt"], expr["dt"]), self.system(expr["sys"]).get_RedfieldRateMatrix().data)
            self.last_prop_reused = False
        else:
            self.last_prop_reused = True
        return self.pop_props[key]
