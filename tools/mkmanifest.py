#!/venv/bin/python
"""Regenerates /verif/MANIFEST.json from the table below and validates it."""
import json
import os
import sys

V = os.path.dirname(os.path.dirname(os.path.abspath(__file__)))

TECH = "deterministic simulation with fault injection"

CHECKS = {
    "C04": dict(engine="basisworld", cat="fault_enumeration", ref="3.1",
                text="Seeded search over programs of nested eigenbasis_of contexts, object creation, reads, writes, protection, "
                     "apply/copy/convert and library calls on one live instance of every basis-managed class, executed with real "
                     "`with` statements against a NumPy reference model (presentation, transparency, bookkeeping, restoration); "
                     "thorough tier enumerates a user exception at every position of each sampled program.",
                note="Samples programs (<=40 ops, depth<=4, dim<=4); trusts NumPy/LAPACK and reads Manager.basis_transformations to "
                     "make degenerate eigenbases decidable. Async exceptions inside library frames are not injected.",
                tech=TECH + ": seeded op/fault programs, reference-model oracle, single-fault enumeration"),
    "C05": dict(engine="unitsworld", cat="fault_enumeration", ref="3.2",
                text="Seeded programs of nested energy/frequency/length units contexts, sets and gets through every units-managed "
                     "accessor, conversions and public builder/calculator calls, with injected and provoked exceptions; reference "
                     "model = units stack + value store + independent CODATA factor table; thorough tier enumerates a fault at every position.",
                note="Samples programs; independent factor table from scipy.constants (1e-6); alias units treated as equal.",
                tech=TECH + ": seeded op/fault programs, units-stack reference model, single-fault enumeration"),
    "C08": dict(engine="esoworld", cat="exploration", ref="3.3",
                text="Seeded histories of calculate / calculate_next / at / apply / set_dense_dt / set_PureDephasing / RWA conversions (with refused "
                     "settings and mode misuse) on evolution superoperators in both modes against expm of an independently assembled "
                     "Liouvillian and a propagator kept for the whole run.",
                note="Samples systems of dim<=4 and grids<=40 points; trusts scipy.linalg.expm.",
                tech=TECH + ": seeded call histories against an exact-exponential reference model"),
    "C09": dict(engine="bathalgebra", cat="exploration", ref="3.4",
                text="Seeded addition histories (a+b, a+=b, self-add, groupings, unit contexts, refused temperature/axis mismatches) over "
                     "correlation functions and spectral densities against a component-list model rebuilt one component at a time.",
                note="Samples histories of <=18 ops, <=8 components; component types limited to those constructible alone on this tree.",
                tech=TECH + ": seeded addition histories with refused operations, component-ledger reference model"),
    "C15": dict(engine="reuseworld", cat="exploration", ref="3.5",
                text="Seeded histories of tensor construction, propagation (RDM, state vector, population, HEOM) and evolution-superoperator "
                     "calls on shared objects; every result is compared with the same call on twins rebuilt from recipes in a pristine "
                     "process, and every input is fingerprinted before and after.",
                note="Samples histories of <=18 ops on dimers/trimers and one hand-made system (bath edits are part of the recipes); propagator refinement is modelled as a setting.",
                tech=TECH + ": seeded reuse histories vs. pristine-fork twins"),
    "C17": dict(engine="rateworld", cat="exploration", ref="3.6",
                text="Seeded histories of set_rate edits interleaved with propagator construction, propagation and sub-axis propagation "
                     "matrices (coarser steps, shifted starts), including defective, cyclic and zero-row generators and the refused "
                     "diagonal assignment, checked step by step against a rate-dictionary model and scipy expm with an explicit Taylor bound.",
                note="Samples histories (dim<=6, <=45 ops); trusts scipy.linalg.expm; binary-exact time steps.",
                tech=TECH + ": seeded edit/propagate histories with refused operations, reference-model oracle"),
    "C18": dict(engine="storeworld", cat="exploration", ref="3.7",
                text="Seeded histories of save/load/export/import of every saveable class interleaved with units and basis contexts on "
                     "simulated storage with injected write failures; loaded observables compared with a model in depth-0 basis and internal units.",
                note="Samples histories (<=20 ops); storage is an in-memory file with a fault knob plus a per-run scratch directory.",
                tech=TECH + ": seeded save/load histories on simulated storage with write faults"),
    "C19": dict(engine="twodledger", cat="fault_enumeration", ref="3.8",
                text="Seeded histories of additions at every level, resolution changes and reads on TwoDResponse storage against an exact "
                     "integer ledger; every inadmissible operation kind is injected at every position (thorough) and must be refused "
                     "without changing any view.",
                note="Samples histories (<=25 ops) with exact integer payloads; admissibility = what the storage accepts along documented edges.",
                tech=TECH + ": seeded add/convert histories with inadmissible operations enumerated, ledger reference model"),
    "C20": dict(engine="mpiworld", cat="exploration", ref="3.9",
                text="N<=17 simulated MPI ranks (real threads released one at a time by a seeded scheduler over a fake mpi4py communicator) "
                     "run the real block-distribution helpers, reductions and the library's distributed loops; partition, reduced result "
                     "and bounded progress (no deadlock) are checked per schedule.",
                note="Samples process counts, ranges and schedules; reliable transport assumed (MPI); threads share a process, per-rank inputs are rebuilt.",
                tech=TECH + ": seeded rank scheduler over a fake communicator, partition/reduction/deadlock oracles"),
}

NA = {
    "C01": "pure function of (Hamiltonian, bath, theory options, basis): no order of events, fault or party to schedule (DESIGN 4)",
    "C02": "one propagate call maps (generator, rho0, grid, order) to a trajectory: input->output relation; reuse histories are C15 (DESIGN 4)",
    "C03": "Hamiltonian and dipole operator are functions of the molecule list; relabelling/unit invariance compare inputs (DESIGN 4)",
    "C06": "detailed balance / golden rule relate one input to one computed matrix; nothing depends on call order or failure (DESIGN 4)",
    "C07": "operator-vs-tensor equality and exact limits are input->output relations (DESIGN 4)",
    "C10": "Franck-Condon overlaps and vibronic state counts are functions of mode parameters (DESIGN 4)",
    "C11": "a spectrum is a function of the system; purity clause is a before/after of a single call (DESIGN 4)",
    "C12": "orientational averages and response additivity are algebraic identities over inputs (DESIGN 4)",
    "C13": "axis conjugation and Fourier transforms are pure functions of (axis, data) (DESIGN 4)",
    "C14": "validity of thermal states quantifies over systems and temperatures; no history, fault or schedule (DESIGN 4)",
    "C16": "index-set completeness and link consistency are combinatorial functions of (baths, depth) (DESIGN 4)",
}


def build(built):
    checks = []
    na = [{"property_id": k, "reason": v} for k, v in sorted(NA.items())]
    for pid, c in sorted(CHECKS.items()):
        if pid not in built:
            na.append({"property_id": pid,
                       "reason": "claimable by this technique (DESIGN %s) but its world is not built yet" % c["ref"]})
            continue
        checks.append({
            "property_id": pid,
            "quick_cmd": "./check %s --tier quick" % pid,
            "thorough_cmd": "./check %s --tier thorough" % pid,
            "evidence_file": "evidence/%s.json" % pid,
            "replay_cmd_template": "./check %s --replay {path}" % pid,
            "engine": c["engine"],
            "level_claimed": {"category": c["cat"], "text": c["text"], "design_ref": "DESIGN.md section " + c["ref"]},
            "level_note": c["note"],
            "technique": c["tech"],
        })
    na.sort(key=lambda x: x["property_id"])
    man = {
        "version": 1,
        "setup_cmd": "./setup.sh",
        "hooks": {
            "guard": "QUANTARHEI_VERIF",
            "enable": "no hooks in /repo: every seam (Manager singleton, sys.modules['mpi4py'], file-object arguments, HOME) is "
                      "reachable from the harness process; checks import quantarhei from /repo's working tree (VERIF_REPO overrides)",
            "baseline_off_cmd": "cd /repo && /venv/bin/python -m pytest -ra -q -p no:cacheprovider --timeout=900 --continue-on-collection-errors",
            "source_commits": [],
            "add_only": True,
        },
        "engines": [{"name": c["engine"], "path": "qsim/worlds/%s.py" % c["engine"], "serves_properties": [pid],
                     "kind_free_text": "seeded interpreter over JSON op lists + NumPy reference model, run in forked children by qsim/core.py"}
                    for pid, c in sorted(CHECKS.items()) if pid in built],
        "checks": checks,
        "not_applicable": na,
        "notes": "All checks: ./check <ID> [--tier quick|thorough] [--replay FILE]; VERIF_SEED selects the batch; exit 0/1/2 = held / VIOLATION / HARNESS-ERROR. "
                 "known_findings.json lists genuine defects (known / fixed). selftest runs the determinism proof and the mutant sensitivity test.",
    }
    return man


if __name__ == "__main__":
    built = [p for p in CHECKS if os.path.exists(os.path.join(V, "qsim", "worlds", CHECKS[p]["engine"] + ".py"))]
    man = build(built)
    with open(os.path.join(V, "MANIFEST.json"), "w") as f:
        json.dump(man, f, indent=1)
    try:
        import jsonschema
        jsonschema.validate(man, json.load(open("/root/.vp/MANIFEST.schema.json")))
        print("MANIFEST valid; claimed:", [c["property_id"] for c in man["checks"]])
    except ImportError:
        print("MANIFEST written (jsonschema not available for validation); claimed:", [c["property_id"] for c in man["checks"]])
