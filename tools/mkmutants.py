#!/venv/bin/python
"""Generates /verif/mutants/<ID>/<name>.patch from (file, old, new) triples against /repo's current HEAD.

Every mutant is a small edit of the code a property is anchored in that still compiles; the sensitivity
self-test (./selftest mutants) demands that the quick check of that property reports a VIOLATION for it.
"""
import difflib
import os
import sys

V = os.path.dirname(os.path.dirname(os.path.abspath(__file__)))
R = "/repo"

M = []


def mut(prop, name, path, old, new, count=1):
    M.append((prop, name, path, old, new, count))


MAN = "quantarhei/core/managers.py"
# ------------------------------------------------------------------ C04
mut("C04", "exit-forgets-set-current-basis", MAN,
    "            op.set_current_basis(nb)\n", "            pass\n")
mut("C04", "exit-skips-on-exception", MAN,
    "        # This is the basis we are leaving\n        bb = self.manager.basis_stack.pop()",
    "        if ext_ty is not None:\n            return\n        # This is the basis we are leaving\n        bb = self.manager.basis_stack.pop()")
mut("C04", "exit-does-not-delete-registered", MAN,
    "        del self.manager.basis_registered[bb]\n", "        pass\n")
mut("C04", "flag-not-cleared", MAN,
    "        if len(self.manager.basis_stack) == 1:\n            self.manager._in_eigenbasis_of_context = False",
    "        if len(self.manager.basis_stack) == 0:\n            self.manager._in_eigenbasis_of_context = False")
mut("C04", "no-reregistration-in-outer-context", MAN,
    "                if op not in ops_above:\n                    self.manager.register_with_basis(nb,op)",
    "                if op not in ops_above:\n                    pass")
mut("C04", "lazy-transform-skips-registration", MAN,
    "            operator.set_current_basis(cb)\n            self.register_with_basis(cb,operator)",
    "            operator.set_current_basis(cb)\n            if len(self.basis_stack) < 3:\n                self.register_with_basis(cb,operator)")
mut("C04", "operator-transform-inverse-swapped", "quantarhei/qm/hilbertspace/operators.py",
    "        self._data = numpy.dot(S1,numpy.dot(self._data,SS))\n        \n                \n    def assert_square_matrix",
    "        self._data = numpy.dot(SS,numpy.dot(self._data,S1))\n        \n                \n    def assert_square_matrix")
mut("C04", "hamiltonian-JR-not-transformed", "quantarhei/qm/hilbertspace/hamiltonian.py",
    "        if self._has_remainder_coupling:\n            self.JR = numpy.dot(S1,numpy.dot(self.JR,SS))\n            \n            \n    def __str__",
    "        if False:\n            self.JR = numpy.dot(S1,numpy.dot(self.JR,SS))\n            \n            \n    def __str__")
mut("C04", "superoperator-second-pair-skipped", "quantarhei/qm/liouvillespace/superoperator.py",
    "            for a in range(dim):\n                for b in range(dim):\n                    self._data[a,b,:,:] = \\\n",
    "            for a in range(0):\n                for b in range(dim):\n                    self._data[a,b,:,:] = \\\n")
mut("C04", "setter-does-not-transform-first", "quantarhei/utils/types.py",
    "        if cb == ob:\n            pass\n        else:\n            # change basis\n            self.manager.transform_to_current_basis(self)\n\n        try:\n            vl = check_numpy_array(value)\n            if not (shape == None):\n                if not (shape == vl.shape):\n                    raise TypeError(\n                    '{} must be of shape {}'.format(name,shape))  \n            setattr(self,storage_name,vl)",
    "        if cb == ob:\n            pass\n        else:\n            pass\n\n        try:\n            vl = check_numpy_array(value)\n            if not (shape == None):\n                if not (shape == vl.shape):\n                    raise TypeError(\n                    '{} must be of shape {}'.format(name,shape))  \n            setattr(self,storage_name,vl)")
mut("C04", "dmevolution-transform-one-point-short", "quantarhei/qm/propagators/dmevolution.py",
    "        for ii in range(self.TimeAxis.length):\n            self._data[ii,:,:] = numpy.dot(S1,",
    "        for ii in range(self.TimeAxis.length-1):\n            self._data[ii,:,:] = numpy.dot(S1,")
mut("C04", "redfield-ops-Ld-not-transformed", "quantarhei/qm/liouvillespace/redfieldtensor.py",
    "                self._Ld[m,:,:] = numpy.dot(S1,numpy.dot(self._Ld[m,:,:], SS))\n", "")
mut("C04", "previous-operator-not-restored", MAN,
    "        self.manager.store_current_basis_operator(self._previous_ops.pop())\n", "        self._previous_ops.pop()\n        self.manager.remove_current_basis_operator()\n")
mut("C04", "context-operator-stored-at-construction", MAN,
    "        # operators of the enclosing contexts, one per entry of this object\n        self._previous_ops = []\n",
    "        # operators of the enclosing contexts, one per entry of this object\n        self._previous_ops = []\n        self.manager.store_current_basis_operator(self.op)\n")
mut("C04", "dipole-component-on-a-view", "quantarhei/qm/hilbertspace/dmoment.py",
    "        return SelfAdjointOperator(dim=self.dim, data=self.data[:,:,n].copy())", "        return SelfAdjointOperator(dim=self.dim, data=self.data[:,:,n])")
mut("C04", "lindblad-operators-share-sbi-array", "quantarhei/qm/liouvillespace/lindbladform.py",
    "            KK = sbi.KK.copy()\n", "            KK = sbi.KK\n")
mut("C04", "superoperator-registered-before-validation", "quantarhei/qm/liouvillespace/superoperator.py",
    "        # name used in the messages about basis changes\n        self.name = \"\"\n", "        # name used in the messages about basis changes\n        self.name = \"\"\n        if cb != 0:\n            self.manager.register_with_basis(cb,self)\n")
mut("C09", "ft-query-writes-temperature-into-parameters", "quantarhei/qm/corfunctions/spectraldensities.py",
    "            prms = prms.copy()\n            if temperature is not None:\n                prms[\"T\"] = temperature", "            if temperature is not None:\n                prms[\"T\"] = temperature")
mut("C19", "derived-spectrum-on-a-view", "quantarhei/spectroscopy/twod2.py",
    "        twod.set_data(numpy.array(self.d__data))", "        twod.set_data(self.d__data[:,:])")
mut("C05", "units-backup-single-slot", MAN,
    "        self.units_backup = self._units_backups.pop()\n        self.manager.set_current_units(\"energy\",self.units_backup)",
    "        self._units_backups.pop()\n        self.manager.set_current_units(\"energy\",self.units_backup)")
mut("C05", "hamiltonian-diagonalize-in-current-units", "quantarhei/qm/hilbertspace/hamiltonian.py",
    "            with energy_units(\"int\"):\n                SS = super().diagonalize()", "            if True:\n                SS = super().diagonalize()")
mut("C05", "spline-kept-across-units", "quantarhei/core/dfunction.py",
    "            or (getattr(self, \"_spline_ends\", None) != ends)):", "            or False):")
mut("C05", "diabatic-coupling-written-into-callers-list", "quantarhei/builders/molecules.py",
    "        factor = [val, factor[1]]\n", "        factor[0] = val\n")
mut("C05", "set-by-interpolation-axis-in-current-units", "quantarhei/spectroscopy/absbase.py",
    "        with energy_units(\"int\"):\n            waxis = FrequencyAxis(omin, length, step)", "        if True:\n            waxis = FrequencyAxis(omin, length, step)")
mut("C04", "copy-not-registered", MAN,
    "        if cb in self.manager.basis_registered:\n            self.manager.register_with_basis(cb, new)",
    "        if False:\n            self.manager.register_with_basis(cb, new)")
mut("C04", "tdm-transform-skips-z", "quantarhei/qm/hilbertspace/dmoment.py",
    "        for i in range(3):\n            self._data[:,:,i] = numpy.dot(S1,numpy.dot(self._data[:,:,i],SS))",
    "        for i in range(2):\n            self._data[:,:,i] = numpy.dot(S1,numpy.dot(self._data[:,:,i],SS))")

mut("C04", "tdredfield-ops-Ld-not-transformed", "quantarhei/qm/liouvillespace/tdredfieldtensor.py",
    "                    self._Ld[tt, m, :, :] = \\\n                    numpy.dot(S1,numpy.dot(self._Ld[tt, m, :, :],SS))            \n", "")

mut("C04", "operator-registered-before-built", "quantarhei/qm/hilbertspace/operators.py",
    "            self.set_current_basis(cb)\n                \n            self.name=name\n", "            self.set_current_basis(cb)\n            if cb != 0:\n                self.manager.register_with_basis(cb, self)\n                \n            self.name=name\n")
mut("C04", "evolution-at-returns-view-again", "quantarhei/qm/propagators/dmevolution.py",
    "        return ReducedDensityMatrix(data=self.data[ti, :, :].copy())", "        return ReducedDensityMatrix(data=self.data[ti, :, :])")

# ------------------------------------------------------------------ C05
mut("C05", "exit-restores-internal-instead-of-backup", MAN,
    "        self.manager.set_current_units(\"energy\",self.units_backup)\n        self.manager._in_eu_count -= 1",
    "        self.manager.set_current_units(\"energy\",\"1/fs\")\n        self.manager._in_eu_count -= 1")
mut("C05", "count-not-decremented", MAN,
    "        self.manager._in_eu_count -= 1\n", "        pass\n")
mut("C05", "length-exit-does-not-restore", MAN,
    "        self.manager.set_current_units(\"length\",self.units_backup)\n", "        pass\n")
mut("C05", "eV-factor-perturbed", "quantarhei/core/units.py",
    "    \"eV\"     : 1.0e-15*const.e/const.hbar,\n    \"meV\"    : 1.0e-18*const.e/const.hbar,\n    \"J\" ",
    "    \"eV\"     : 1.0001e-15*const.e/const.hbar,\n    \"meV\"    : 1.0e-18*const.e/const.hbar,\n    \"J\" ")
mut("C05", "nm-not-reciprocal-on-read", MAN,
    "        units = self.current_units[\"energy\"]\n        cfact = conversion_facs_energy[units]\n        \n        # special handling for nanometers\n        if units == \"nm\":",
    "        units = self.current_units[\"energy\"]\n        cfact = conversion_facs_energy[units]\n        \n        # special handling for nanometers\n        if units == \"NM\":")
mut("C05", "hamiltonian-setter-stores-unconverted", "quantarhei/utils/types.py",
    "            setattr(self,storage_name,self.convert_2_internal_u(vl))\n        except:\n            raise TypeError(\n            '{} must be either a list or numpy.array'.format(name))\n        \n    return prop     \n",
    "            setattr(self,storage_name,vl)\n        except:\n            raise TypeError(\n            '{} must be either a list or numpy.array'.format(name))\n        \n    return prop     \n")
mut("C05", "convert-ignores-to", "quantarhei/core/units.py",
    "        with energy_units(to):\n            ne = m.convert_energy_2_current_u(e)", "        with energy_units(in_units):\n            ne = m.convert_energy_2_current_u(e)")
mut("C05", "build-uses-raw-switch-again", "quantarhei/builders/aggregate_base.py",
    "        with energy_units(\"int\"):\n            self._build(",
    "        Manager().set_current_units(\"energy\", \"int\")\n        if True:\n            self._build(")
mut("C05", "set-energy-not-converted", "quantarhei/builders/molecules.py",
    "        self.elenergies[N] = self.convert_energy_2_internal_u(en)", "        self.elenergies[N] = en")
mut("C05", "coupling-getter-not-converted", "quantarhei/builders/aggregate_base.py",
    "        coupling = self.resonance_coupling[i,j]\n        return self.convert_energy_2_current_u(coupling)",
    "        coupling = self.resonance_coupling[i,j]\n        return coupling")
mut("C05", "set-rwa-leaves-internal-units", "quantarhei/qm/hilbertspace/hamiltonian.py",
    "        # average energies in every block\n        with energy_units(\"int\"):", "        # average energies in every block\n        self.manager.set_current_units(\"energy\", \"int\")\n        if True:")

# ------------------------------------------------------------------ C08
ESO = "quantarhei/qm/liouvillespace/evolutionsuperoperator.py"
mut("C08", "dense-power-one-short", ESO,
    "        for ti in range(2, self.dense_time.length):\n            Udt = numpy.tensordot(Ut1, Udt)",
    "        for ti in range(3, self.dense_time.length):\n            Udt = numpy.tensordot(Ut1, Udt)")
mut("C08", "jit-save-writes-wrong-index", ESO,
    "                if save:\n                    self.data[ti, :,:,:,:] = \\\n                        numpy.tensordot(self.Udt.data, self.data[ti-1,:,:,:,:])",
    "                if save:\n                    self.data[ti, :,:,:,:] = \\\n                        numpy.tensordot(self.Udt.data, self.data[max(ti-2,0),:,:,:,:])")
mut("C08", "remaining-uses-wrong-previous", ESO,
    "                numpy.tensordot(Udt, self.data[ti-1,:,:,:,:])        \n",
    "                numpy.tensordot(Udt, self.data[ti-2,:,:,:,:])        \n")
mut("C08", "apply-uses-neighbouring-time", ESO,
    "                oper_ven.data = numpy.tensordot(self.data[ti, :, :, :, :],\n                                                target.data)",
    "                oper_ven.data = numpy.tensordot(self.data[max(ti-1,0), :, :, :, :],\n                                                target.data)")
mut("C08", "jit-first-step-ignores-dense", ESO,
    "                           self._one_step_with_dense_TimeIndep(t0,\n                                                    self.dense_time.length,\n                                                    self.dense_time.step, Nt))",
    "                           self._elemental_step_TimeIndep(t0,\n                                                    self.dense_time.step, Nt))")
mut("C08", "jit-one-step-propagator-bare-array-again", ESO,
    "numpy.tensordot(self.Udt.data, self.data[:,:,:,:])", "numpy.tensordot(numpy.array(self.Udt._data), self.data[:,:,:,:])")
mut("C08", "identity-not-reinitialised", ESO,
    "                    self.data[0,i,j,i,j] = 1.0\n                \n        elif self.mode == \"jit\":",
    "                    self.data[0,i,j,i,j] = 1.0 if i <= j else 0.0\n                \n        elif self.mode == \"jit\":")
mut("C08", "at-off-by-one", ESO,
    "            return SuperOperator(data=self.data[ti, :, :, :, :].copy())", "            return SuperOperator(data=self.data[min(ti+1, self.data.shape[0]-1), :, :, :, :].copy())")
mut("C04", "eso-at-returns-view-again", ESO,
    "            return SuperOperator(data=self.data[ti, :, :, :, :].copy())", "            return SuperOperator(data=self.data[ti, :, :, :, :])")

# ------------------------------------------------------------------ C09
CF = "quantarhei/qm/corfunctions/correlationfunctions.py"
SD = "quantarhei/qm/corfunctions/spectraldensities.py"
mut("C09", "lamb-not-accumulated", CF,
    "            self.data += other.data\n            self.lamb += other.lamb  # reorganization energy is additive\n            if other.cutoff_time",
    "            self.data += other.data\n            if other.cutoff_time")
mut("C09", "temperature-check-removed", CF,
    "            if self.temperature != other.temperature:\n                raise Exception(\"Cannot add two correlation functions on different temperatures\")",
    "            if False:\n                raise Exception(\"Cannot add two correlation functions on different temperatures\")")
mut("C09", "params-not-extended", CF,
    "            for p in other.params:\n                self.params.append(p)\n                \n            self._is_composed = True\n            self._is_empty = False\n            \n\n        else:",
    "            self._is_composed = True\n            self._is_empty = False\n            \n\n        else:")
mut("C09", "self-add-branch-removed", CF,
    "        if self == other:\n            #print(other.energy_units)", "        if False:\n            #print(other.energy_units)")
mut("C09", "stale-ftype-again", CF,
    "                    ftype = prms[\"ftype\"]\n", "                    pass\n")
mut("C09", "sd-add-under-caller-units", SD,
    "            with energy_units(\"int\"):\n                f = SpectralDensity(t1, params=self.params)", "            if True:\n                f = SpectralDensity(t1, params=self.params)")
mut("C09", "sd-lamb-not-accumulated", SD,
    "            self.data += other.data\n            self.lamb += other.lamb  # reorganization energy is additive\n            for i in range(2):\n                self.lim_omega[i] += other.lim_omega[i] ",
    "            self.data += other.data\n            for i in range(2):\n                self.lim_omega[i] += other.lim_omega[i] ")
mut("C09", "axis-check-removed", CF,
    "        t1 = self.axis\n        t2 = other.axis\n        if t1 == t2:\n            \n            self.data += other.data\n            self.lamb += other.lamb  # reorganization energy is additive",
    "        t1 = self.axis\n        t2 = other.axis\n        if t1.length == t2.length:\n            \n            self.data += other.data\n            self.lamb += other.lamb  # reorganization energy is additive")

# ------------------------------------------------------------------ C15
mut("C15", "heom-ados-carried-over", "quantarhei/qm/liouvillespace/heom.py",
    "        self.hy.reset_ados()\n        \n        if free_hierarchy:", "        if free_hierarchy:")
mut("C15", "cutoff-coupling-not-recovered", "quantarhei/qm/hilbertspace/hamiltonian.py",
    "        if self._has_remainder_coupling:\n            self._data += self.JR \n", "        if False:\n            self._data += self.JR \n")
mut("C15", "evolution-aliases-initial-state", "quantarhei/qm/propagators/dmevolution.py",
    "        self.data[0,:,:] = rhoi.data        \n", "        self.data[0,:,:] = rhoi.data        \n        rhoi.data[0,0] += 1.0e-6\n")
mut("C15", "sv-propagator-refinement-drifts", "quantarhei/qm/propagators/svpropagator.py",
    "    def propagate(self, psii, L=4, hfce=None, nonlinear=False):\n", "    def propagate(self, psii, L=4, hfce=None, nonlinear=False):\n        self.dt = self.dt*0.999\n")
mut("C15", "pop-propagator-edits-rate-matrix", "quantarhei/qm/propagators/poppropagator.py",
    "        Nt = self.timeAxis.length\n        pops = numpy.zeros((Nt,pini.shape[0]))\n",
    "        Nt = self.timeAxis.length\n        pops = numpy.zeros((Nt,pini.shape[0]))\n        self.KK[1,1] *= 1.0001\n")
mut("C15", "basis-protection-left-on", "quantarhei/builders/opensystem.py",
    "                    relaxT = RedfieldRelaxationTensor(ham, sbi,\n                                                    as_operators=as_operators)\n\n                    if secular_relaxation:\n                        relaxT.secularize()\n\n                ham.unprotect_basis()",
    "                    relaxT = RedfieldRelaxationTensor(ham, sbi,\n                                                    as_operators=as_operators)\n\n                    if secular_relaxation:\n                        relaxT.secularize()\n\n                pass")

# ------------------------------------------------------------------ C17
RM = "quantarhei/qm/liouvillespace/rates/ratematrix.py"
PP = "quantarhei/qm/propagators/poppropagator.py"
mut("C17", "wrong-column-compensated", RM,
    "        self.data[M,M] += orig_val\n        self.data[M,M] -= value", "        self.data[N,N] += orig_val\n        self.data[N,N] -= value")
mut("C17", "old-value-not-given-back", RM,
    "        self.data[M,M] += orig_val\n", "")
mut("C17", "diagonal-assignment-accepted", RM,
    "        if N == M:\n            raise Exception(\"Diagonal (depopulation) rates cannot be set\")", "        if False:\n            raise Exception(\"Diagonal (depopulation) rates cannot be set\")")
mut("C17", "shift-one-step-too-many", PP,
    "                    for i in range(Ns):\n                        U0 = numpy.dot(expKd_step,U0)", "                    for i in range(Ns+1):\n                        U0 = numpy.dot(expKd_step,U0)")
mut("C17", "expansion-order-three", PP,
    "    def _propagate_short_exp(self,pini,L=4):", "    def _propagate_short_exp(self,pini,L=2):")
mut("C17", "eig-based-exponential-again", PP,
    "            expKd_step = scipy.linalg.expm(KK*timeaxis.step)",
    "            Kd, SS = numpy.linalg.eig(KK)\n            expKd_step = numpy.real(numpy.dot(SS,numpy.dot(numpy.diag(numpy.exp(Kd*timeaxis.step)),numpy.linalg.inv(SS))))")
mut("C17", "unaligned-shift-uses-step", PP,
    "                    expKd_dt = scipy.linalg.expm(KK*dt)", "                    expKd_dt = scipy.linalg.expm(KK*timeaxis.step)")

# ------------------------------------------------------------------ C18
mut("C18", "state-saved-in-context-basis", MAN,
    "        if (cb == 0) or (cb not in stack) or self.is_basis_protected:\n            return self.__dict__",
    "        if True:\n            return self.__dict__")
mut("C18", "load-ignores-rewind", "quantarhei/core/saveable.py",
    "        if test:\n            if not isinstance(filename, str):\n                filename.seek(0)\n        \n        return load_parcel(filename)",
    "        return load_parcel(filename)")
mut("C18", "txt-dispatched-to-binary", "quantarhei/core/datasaveable.py",
    "        if (extension == \".dat\") or (extension == \".txt\"):\n            self._importDataFromText(name, with_axis)",
    "        if (extension == \".dat\"):\n            self._importDataFromText(name, with_axis)")
mut("C18", "axis-column-kept-in-data", "quantarhei/core/datasaveable.py",
    "                elif data.shape[1] > 2:\n                    axis.data = data[:,0]\n                    return data[:,1:]",
    "                elif data.shape[1] > 2:\n                    axis.data = data[:,0]\n                    return data[:,0:-1]")
mut("C18", "npz-typo-again", "quantarhei/core/datasaveable.py",
    "            data = self._data_with_axis(with_axis)\n            numpy.savez_compressed(file, data=data)", "            data = self._data_with_axis(with_axis)\n            numpy.save_compressed(file, data=data)")
mut("C18", "mat-saves-real-part", "quantarhei/core/datasaveable.py",
    "            io.savemat(file, {\"data\":self.data})", "            io.savemat(file, {\"data\":numpy.real(self.data)})")
mut("C18", "loaded-state-transformed-twice", MAN,
    "        for k in range(stack.index(cb), 0, -1):", "        for k in range(stack.index(cb), -1, -1):" if False else "        for k in range(stack.index(cb), 1, -1):")

# ------------------------------------------------------------------ C19
TW = "quantarhei/spectroscopy/twod2.py"
mut("C19", "conversion-overwrites-instead-of-summing", TW,
    "                for key in pdict.keys():\n                    data += pdict[key]", "                for key in pdict.keys():\n                    data = data*0 + pdict[key]")
mut("C19", "DC-dropped-from-total", TW,
    "_signals = {signal_REPH:[_ptypes[1], _ptypes[2], _ptypes[4]],\n            signal_NONR:[_ptypes[0], _ptypes[3], _ptypes[5]],\n            signal_DC:[_ptypes[6], _ptypes[7]]}",
    "_signals = {signal_REPH:[_ptypes[1], _ptypes[2], _ptypes[4]],\n            signal_NONR:[_ptypes[0], _ptypes[3], _ptypes[5]],\n            signal_DC:[_ptypes[6]]}")
mut("C19", "R3g-filed-under-nonrephasing", TW,
    "_signals = {signal_REPH:[_ptypes[1], _ptypes[2], _ptypes[4]],\n            signal_NONR:[_ptypes[0], _ptypes[3], _ptypes[5]],",
    "_signals = {signal_REPH:[_ptypes[1], _ptypes[4]],\n            signal_NONR:[_ptypes[0], _ptypes[2], _ptypes[3], _ptypes[5]],")
mut("C19", "finer-add-accepted", TW,
    "            if res1 <= res2:\n            \n                pass\n            \n            else:\n                raise Exception(\"This TwoDSpectrum does not have enough \"",
    "            if res1 <= res2 + 1:\n            \n                pass\n            \n            else:\n                raise Exception(\"This TwoDSpectrum does not have enough \"")
mut("C19", "processes-to-total-skips-first", TW,
    "        for process in _processes:\n            \n            try:\n                data += obj._d__data[process]",
    "        for process in list(_processes)[1:]:\n            \n            try:\n                data += obj._d__data[process]")
mut("C19", "type-add-double-counts-again", TW,
    "                if self.storage_resolution == \"pathways\":\n                    # the storage keeps", "                if False:\n                    # the storage keeps")
mut("C19", "raising-resolution-accepted", TW,
    "            if res_old < res_new:\n                raise Exception(\"Cannot convert from lower\"+\n                                \" to higher resolution\")",
    "            if res_old < res_new:\n                self.storage_resolution = resolution\n                return")
mut("C19", "signals-level-add-overwrites", TW,
    "            if dtype in _signals:\n                if tag is not None:\n                    raise Exception(\"Tag specified for storage resolutios\"+\n                                    \" 'signals'. Tag would be ignored and\"+\n                                    \" information lost\")\n                self.set_data_flag(dtype)\n                try:\n                    odata = self.d__data\n                except:\n                    odata = None",
    "            if dtype in _signals:\n                if tag is not None:\n                    raise Exception(\"Tag specified for storage resolutios\"+\n                                    \" 'signals'. Tag would be ignored and\"+\n                                    \" information lost\")\n                self.set_data_flag(dtype)\n                odata = None")

# ------------------------------------------------------------------ C20
PA = "quantarhei/core/parallel.py"
mut("C20", "start-ignored-again", PA,
    "        rng.append(start+N1_local)\n        rng.append(start+N2_local)", "        rng.append(N1_local)\n        rng.append(N2_local)")
mut("C20", "remainder-test-strict", PA,
    "        if rank <= remainder:\n            if rank != 0:", "        if rank < remainder:\n            if rank != 0:")
mut("C20", "remainder-offsets-not-shifted", PA,
    "                N1_local += rank-1\n                N2_local += rank", "                N1_local += 0\n                N2_local += 1")
mut("C20", "level-test-inverted", PA,
    "    if config.parallel_level==1:\n        \n        config.inparallel_entered = True\n        \n        rng = _calculate_ranges(config, start, stop)",
    "    if config.parallel_level!=1:\n        \n        config.inparallel_entered = True\n        \n        rng = _calculate_ranges(config, start, stop)")
mut("C20", "allreduce-copies-first-row-only", PA,
    "            self.comm.Allreduce(S, B, op=MPI.SUM)\n            A[...] = B", "            self.comm.Allreduce(S, B, op=MPI.SUM)\n            A[0,...] = B[0,...]")
mut("C20", "allreduce-receives-into-c-ordered-buffer-of-raw-memory", PA,
    "            S = numpy.ascontiguousarray(A)\n            B = numpy.zeros(S.shape, dtype=S.dtype)\n            self.comm.Allreduce(S, B, op=MPI.SUM)",
    "            S = A\n            B = numpy.zeros(S.shape, dtype=S.dtype)\n            self.comm.Allreduce(S, B, op=MPI.SUM)")
mut("C20", "array-index-not-distributed-again", PA,
    "            for a in range(rng[0],rng[1]):\n                lst.append((a, array[a]))\n            return lst             \n        else:\n            return array[rng[0]:rng[1]]",
    "            for a in range(array.shape[0]):\n                lst.append((a, array[a]))\n            return lst             \n        else:\n            return array[rng[0]:rng[1]]")
mut("C20", "empty-block-skips-barrier", PA,
    "                if self.parallel_level == 1:\n                    self.comm.Barrier()", "                if self.parallel_level == 1 and getattr(self, 'range', [0,1])[0] != getattr(self, 'range', [0,1])[1]:\n                    self.comm.Barrier()")
mut("C20", "list-block-off-by-one", PA,
    "            return dlist[rng[0]:rng[1]]", "            return dlist[rng[0]:rng[1]+1]")
mut("C20", "reduce-at-level-two-communicates", PA,
    "         # only in parallel_level == 1 we share the work\n        if self.parallel_level != 1:\n            return A",
    "         # only in parallel_level == 1 we share the work\n        if self.parallel_level < 1:\n            return A")


def main():
    n_ok = n_bad = 0
    for (prop, name, path, old, new, count) in M:
        src = open(os.path.join(R, path)).read()
        if src.count(old) != count:
            print("!! %s/%s: anchor found %d times in %s" % (prop, name, src.count(old), path))
            n_bad += 1
            continue
        dst = src.replace(old, new)
        diff = difflib.unified_diff(src.splitlines(True), dst.splitlines(True), "a/" + path, "b/" + path)
        d = os.path.join(V, "mutants", prop)
        os.makedirs(d, exist_ok=True)
        with open(os.path.join(d, name + ".patch"), "w") as f:
            f.writelines(diff)
        n_ok += 1
    print("wrote %d patches, %d anchors not found" % (n_ok, n_bad))
    return 1 if n_bad else 0


if __name__ == "__main__":
    sys.exit(main())
