#!/bin/sh
# Runs /repo's pinned test suite (guard off) and compares with BASELINE.json stable_pass.
OUT=${1:-/tmp/junit_baseline.xml}
cd /repo && env -u QUANTARHEI_VERIF /venv/bin/python -m pytest -ra -q -p no:cacheprovider --timeout=900 --continue-on-collection-errors --junitxml=$OUT > /tmp/pytest_baseline.log 2>&1
/venv/bin/python - "$OUT" <<'PY'
import sys, json, xml.etree.ElementTree as ET
base = set(json.load(open('/root/.vp/BASELINE.json'))['stable_pass'])
passed=set()
for tc in ET.parse(sys.argv[1]).getroot().iter('testcase'):
    if not any(ch.tag in ('failure','error','skipped') for ch in tc):
        passed.add(tc.get('classname')+'::'+tc.get('name'))
missing = sorted(base-passed)
print("baseline stable_pass: %d, passed now: %d, missing: %d" % (len(base), len(passed & base), len(missing)))
for m in missing: print("  MISSING", m)
sys.exit(1 if missing else 0)
PY
