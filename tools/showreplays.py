#!/venv/bin/python
import json,glob,sys
for f in sorted(glob.glob('/verif/replays/%s/*.json' % sys.argv[1])):
    b=json.load(open(f)); p=b['program']
    print("==", f.split('/')[-1], b.get('oracle'), "| trials", b.get('minimisation_trials'))
    print("  ", (b.get('msg') or '')[:300])
    print("   cfg:", {k:v for k,v in p.items() if k!='ops'})
    for i,o in enumerate(p['ops']): print("    %d %s" % (i, json.dumps(o)))
