#!/bin/sh
# False-alarm / reach soak: every quick check for a range of seeds on the unchanged tree.
# usage: tools/soak.sh FIRST LAST [IDs...]   -> prints one line per (id, seed); exit 1 if any check did not exit 0
cd "$(dirname "$0")/.." || exit 2
FIRST=${1:-1}; LAST=${2:-10}; shift 2 2>/dev/null
IDS=${*:-C04 C05 C08 C09 C15 C17 C18 C19 C20}
bad=0
for s in $(seq $FIRST $LAST); do
  for p in $IDS; do
    out=$(VERIF_SEED=$s ./check $p --tier quick --no-evidence 2>&1 | grep -v "^KNOWN-FINDING")
    rc=$?
    line=$(echo "$out" | tail -1)
    if echo "$out" | grep -q "VIOLATION\|HARNESS-ERROR"; then bad=1; echo "!! seed=$s $p"; echo "$out" | grep "violation oracle\|VIOLATION\|HARNESS" | head -5; fi
    echo "seed=$s $line"
  done
done
exit $bad
