#!/venv/bin/python
"""Confirms one independently written breaking change and files it under /verif/seeded/.

usage: tools/verify_seeded.py <ID> <source dir with patch.diff demo.py notes.md> <name> [--no-tests]

Steps (all in a scratch git worktree of /repo under /dev/shm, removed afterwards):
  1. demo.py on the clean tree must exit 0
  2. patch applies; the package imports; demo.py must exit non-zero
  3. the pinned test suite with the patch applied must still pass every test of BASELINE.stable_pass
  4. ./check <ID> --tier quick against the patched tree: VIOLATION expected (recorded either way)
"""
import json
import os
import shutil
import subprocess
import sys
import time
import xml.etree.ElementTree as ET

V = os.path.dirname(os.path.dirname(os.path.abspath(__file__)))


def sh(cmd, **kw):
    return subprocess.run(cmd, capture_output=True, text=True, **kw)


def main():
    prop, src, name = sys.argv[1:4]
    run_tests = "--no-tests" not in sys.argv
    scratch = "/dev/shm/seedwt_%s_%d" % (name, os.getpid())
    home = scratch + "_home"
    os.makedirs(home, exist_ok=True)
    sh(["git", "-C", "/repo", "worktree", "prune"])
    r = sh(["git", "-C", "/repo", "worktree", "add", "--detach", scratch, "HEAD"])
    if r.returncode != 0:
        print("cannot create worktree:", r.stderr)
        return 2
    meta = {"property": prop, "name": name, "source": "independent sub-agent given only the property text and a scratch worktree",
            "repo_head": sh(["git", "-C", "/repo", "rev-parse", "--short", "HEAD"]).stdout.strip()}
    try:
        env = dict(os.environ, HOME=home, PYTHONPATH=scratch, PYTHONWARNINGS="ignore", MPLBACKEND="Agg")
        # the demo is run from the same relative place inside the scratch tree (some demos put "their" checkout on sys.path)
        ddir = os.path.join(scratch, "breakages", "x")
        os.makedirs(ddir, exist_ok=True)
        demo = os.path.join(ddir, "demo.py")
        shutil.copy2(os.path.join(src, "demo.py"), demo)
        c = sh(["/venv/bin/python", demo], env=env, cwd=scratch, timeout=900)
        meta["demo_clean_exit"] = c.returncode
        a = sh(["git", "apply", os.path.join(src, "patch.diff")], cwd=scratch)
        if a.returncode != 0:
            # written against an earlier /repo HEAD (a later fix: commit moved the context lines): apply with fuzz
            a = sh(["patch", "-p1", "-i", os.path.join(src, "patch.diff")], cwd=scratch)
            meta["applied_with_fuzz"] = a.returncode == 0
        meta["patch_applies"] = a.returncode == 0
        if a.returncode != 0:
            print("patch does not apply:", a.stderr[:500])
        imp = sh(["/venv/bin/python", "-c", "import quantarhei, sys; print(quantarhei.__file__)"], env=env, cwd=scratch)
        meta["imports_patched"] = imp.returncode == 0 and scratch in imp.stdout
        b = sh(["/venv/bin/python", demo], env=env, cwd=scratch, timeout=900)
        meta["demo_patched_exit"] = b.returncode
        meta["demo_patched_tail"] = (b.stdout + b.stderr)[-600:]
        if run_tests:
            junit = scratch + "_junit.xml"
            t0 = time.time()
            # explicit paths + PYTHONPATH: collecting from the root of a worktree lets the editable install's
            # `tests` package shadow the worktree's one; these two directories hold all 148 baseline tests
            sh(["/venv/bin/python", "-m", "pytest", "-ra", "-q", "-p", "no:cacheprovider", "--timeout=900",
                "--continue-on-collection-errors", "--junitxml=" + junit, "tests/unit", "examples"],
               env=dict(os.environ, HOME=home, MPLBACKEND="Agg", PYTHONPATH=scratch), cwd=scratch, timeout=6000)
            base = set(json.load(open("/root/.vp/BASELINE.json"))["stable_pass"])
            passed = set()
            for tc in ET.parse(junit).getroot().iter("testcase"):
                if not any(ch.tag in ("failure", "error", "skipped") for ch in tc):
                    passed.add(tc.get("classname") + "::" + tc.get("name"))
            meta["suite_missing_with_patch"] = sorted(base - passed)
            meta["suite_seconds"] = round(time.time() - t0)
            os.unlink(junit)
        env2 = dict(os.environ, VERIF_REPO=scratch)
        env2.pop("QSIM_PINNED", None)
        t0 = time.time()
        k = sh([os.path.join(V, "check"), prop, "--tier", "quick", "--no-evidence"], env=env2, timeout=3000)
        meta["check_exit"] = k.returncode
        meta["check_detects"] = ("VIOLATION property=%s" % prop) in k.stdout
        meta["check_oracles"] = sorted(set(l.split("oracle=")[1].split(":")[0] for l in k.stdout.split("\n") if l.startswith("violation oracle=")))
        meta["check_seconds"] = round(time.time() - t0)
        meta["check_tail"] = k.stdout[-1500:]
    finally:
        sh(["git", "-C", "/repo", "worktree", "remove", "--force", scratch])
        shutil.rmtree(scratch, ignore_errors=True)
        shutil.rmtree(home, ignore_errors=True)
        shutil.rmtree(os.path.join(V, "replays", prop), ignore_errors=True)
    prev_path = os.path.join(V, "seeded", name, "meta.json")
    if not run_tests and os.path.exists(prev_path):
        prev = json.load(open(prev_path))
        for k in ("suite_missing_with_patch", "suite_seconds"):
            if k in prev:
                meta[k] = prev[k]
        run_tests = "suite_missing_with_patch" in prev
    ok = (meta.get("demo_clean_exit") == 0 and meta.get("patch_applies") and meta.get("imports_patched")
          and meta.get("demo_patched_exit") not in (0, None) and (not run_tests or not meta.get("suite_missing_with_patch")))
    meta["confirmed"] = bool(ok)
    print(json.dumps({k: v for k, v in meta.items() if k not in ("check_tail", "demo_patched_tail")}, indent=1))
    if ok:
        dst = os.path.join(V, "seeded", name)
        os.makedirs(dst, exist_ok=True)
        for f in ("patch.diff", "demo.py", "notes.md"):
            if os.path.exists(os.path.join(src, f)):
                shutil.copy2(os.path.join(src, f), os.path.join(dst, f))
        notes = open(os.path.join(src, "notes.md")).read() if os.path.exists(os.path.join(src, "notes.md")) else ""
        meta["needs_to_manifest"] = notes[:1500]
        meta["what_was_run"] = ("demo.py on clean and patched scratch worktree; pinned pytest suite with the patch (all BASELINE.stable_pass tests "
                                "must pass); ./check %s --tier quick with VERIF_REPO=<patched worktree>" % prop)
        with open(os.path.join(dst, "meta.json"), "w") as f:
            json.dump(meta, f, indent=1, sort_keys=True)
    return 0 if ok else 1


if __name__ == "__main__":
    sys.exit(main())
